"""python -m checks.capture <property> <clause> <out name>: find, minimise and store a replay for a (known) violation class."""
import shutil
import sys


def main():
    from sim import bootstrap
    bootstrap.ensure_env()
    from sim import core, prng
    prop, clause, name = sys.argv[1:4]
    engine = core.get_engine(core.PROPERTY_ENGINE[prop])
    for i in range(5000):
        plan = engine.gen_plan(prng.rng_for(0, engine.name, i), 'quick')
        plan['seed'] = [0, i]
        out = core.execute(engine, plan)
        hits = [v for v in out.violations if v['property'] == prop and v['clause'] == clause]
        if hits:
            cls = core.vclass(hits[0])
            small, steps = core.minimise(engine, plan, cls, time_budget=120)
            ok, out2 = core.has_class(engine, small, cls)
            path = core.write_replay(engine, small, cls, out2.digest(), 'known')
            dest = core.REPLAYS / 'known' / name
            shutil.move(str(path), dest)
            print('wrote', dest, 'after', steps, 'minimise steps; run index', i)
            return
    print('not found')
    sys.exit(1)


if __name__ == '__main__':
    main()
