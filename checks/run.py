"""python -m checks.run <property id> [--tier quick|thorough] [--runs N] [--seconds S] [--workers W]"""
import argparse
import os
import sys


def main():
    from sim import bootstrap
    bootstrap.ensure_env()
    from sim import core
    ap = argparse.ArgumentParser()
    ap.add_argument('property')
    ap.add_argument('--tier', default=os.environ.get('VERIF_TIER', 'quick'), choices=['quick', 'thorough'])
    ap.add_argument('--runs', type=int)
    ap.add_argument('--seconds', type=float)
    ap.add_argument('--workers', type=int)
    a = ap.parse_args()
    seed = int(os.environ.get('VERIF_SEED', '0'))
    try:
        rc = core.run_check(a.property, a.tier, seed, n_runs=a.runs, budget_s=a.seconds, workers=a.workers)
    except SystemExit:
        raise
    except BaseException:
        # a bug in the harness (or emsarray not importable) is never a pass and never a VIOLATION
        import traceback
        print('HARNESS-ERROR', traceback.format_exc()[-3000:])
        sys.exit(2)
    sys.exit(rc)


if __name__ == '__main__':
    main()
