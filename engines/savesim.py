"""
savesim - C17: two-phase durable save (write file; reopen r+ and rewrite time units) under
storage faults, crashes between the phases, ack-then-crash, save/reopen cycles and process TZ.
"""
from __future__ import annotations

import copy
import os
import re

import numpy

from sim import lifetimes, observe, seams, worldgen
from . import common

TZS = ['UTC0', 'XXX-10:30', 'XXX+3:30', 'XXX-14', 'XXX+12', None]
UNITS_RE = re.compile(r'^(\w+) since \d{4}-\d{2}-\d{2} \d{2}:\d{2}:\d{2} [+-]\d{1,2}:\d{2}$')


def gen_time_units(rng):
    period = rng.choice(['seconds', 'minutes', 'hours', 'days', 'days'])
    year = rng.choice([rng.randint(1700, 2200), rng.randint(1950, 2030), 1990, 2000])
    month, day = rng.randint(1, 12), rng.randint(1, 28)
    if rng.random() < 0.5:
        hh = mm = ss = 0
    else:
        hh, mm, ss = rng.randint(0, 23), rng.randint(0, 59), rng.choice([0, 0, rng.randint(0, 59)])
    kind = rng.choice(['none', 'pos2', 'pos1', 'neg2', 'neg1', 'frac_pos', 'frac_neg', 'zero', 'extreme'])
    if kind == 'none':
        off = None
    elif kind == 'pos2':
        off = rng.randint(10, 13) * 60
    elif kind == 'pos1':
        off = rng.randint(1, 9) * 60
    elif kind == 'neg2':
        off = -rng.randint(10, 12) * 60
    elif kind == 'neg1':
        off = -rng.randint(1, 9) * 60
    elif kind == 'frac_pos':
        off = rng.randint(0, 12) * 60 + rng.choice([30, 45])
    elif kind == 'frac_neg':
        off = -(rng.randint(0, 11) * 60 + rng.choice([30, 45]))
    elif kind == 'zero':
        off = 0
    else:
        off = rng.choice([14 * 60, -12 * 60])
    sep = rng.choice(['T', ' '])
    date = f'{year:04d}-{month:02d}-{day:02d}'
    style = rng.choice(['full', 'full', 'nosec', 'dateonly'])
    if style == 'dateonly' and off is None and (hh, mm, ss) == (0, 0, 0):
        s = f'{period} since {date}'
        return s, {'offset': kind, 'style': style}
    if style == 'nosec' and ss == 0:
        tod = f'{hh:02d}:{mm:02d}'
    else:
        tod = f'{hh:02d}:{mm:02d}:{ss:02d}'
    s = f'{period} since {date}{sep}{tod}'
    if off is not None:
        sign = '-' if off < 0 else '+'
        a = abs(off)
        oh, om = divmod(a, 60)
        form = rng.choice(['hh:mm', 'hh:mm', 'h:mm', 'hh'])
        if form == 'hh' and om:
            form = 'hh:mm'
        if form == 'hh:mm':
            o = f'{sign}{oh:02d}:{om:02d}'
        elif form == 'h:mm':
            o = f'{sign}{oh:d}:{om:02d}'
        else:
            o = f'{sign}{oh:02d}'
        space = ' ' if (sep == ' ' or rng.random() < 0.5) else ''
        if sep == 'T' and space == '' or True:
            s = s + space + o
    return s, {'offset': kind, 'style': style, 'sep': sep}


class SaveSim:
    name = 'savesim'
    properties = ['C17']

    def budget(self, prop, tier):
        return {'quick': {'runs': 2800, 'seconds': 50}, 'thorough': {'runs': 60000, 'seconds': 600}}[tier]

    def rule(self, prop):
        return ('plans drawn from VERIF_SEED: world (any convention, small) x generated time-units string x process TZ x 1-3 '
                'save steps (Convention.to_netcdf / utils.to_netcdf_with_fixes; source = world or previous output) x storage '
                'faults at the write (ENOSPC / EIO / EACCES / partial) / source read / r+ reopen / setncattr / sync seams, once or persistent, x exit|crash_after_ack|crash_at; second save of the same object; in-process and new-process retries. Non-trivial = at '
                'least one save was acknowledged and its file judged by another process. Distinct = distinct signature '
                '(convention, materialisation, TZ, offset class, units style, per-step via/source/end, fired faults).')

    def real_vs_stub(self):
        return {'real': ['emsarray (working tree)', 'xarray', 'netCDF4/HDF5', 'cftime', 'file system (scratch dir)', 'process death (fork + os._exit)'],
                'stub': ['fault injection wrappers at xarray.Dataset.to_netcdf and at emsarray.utils.netCDF4 (Dataset r+, setncattr, sync)', 'TZ via os.environ + tzset']}

    def assumptions(self, prop):
        return ['process-crash durability model (kernel-accepted data survives), not power loss',
                'faults are injected at the Python call boundary',
                'reader = xarray.open_dataset + raw netCDF4 in a separate process',
                'time epochs restricted to years 1700-2200 (datetime64[ns] range)']

    # -- planning ------------------------------------------------------------------------
    def gen_plan(self, rng, tier):
        big = tier == 'thorough'
        world = worldgen.gen_world(rng, max_n=4 if big else 3, max_faces=8 if big else 5, max_vars=3,
                                   with_time=rng.random() < 0.9, min_vars=1)
        meta = None
        if world['time']:
            world['time']['units'], meta = gen_time_units(rng)
        if world['time'] and world['time']['n'] >= 3 and rng.random() < 0.2:
            # records that are not in chronological order (or repeat an instant): files are not always sorted
            vals_ = list(world['time']['values'])
            rng.shuffle(vals_)
            if rng.random() < 0.4:
                vals_[-1] = vals_[0]
            world['time']['values'] = vals_
        tz = rng.choice(TZS)
        steps = []
        n_steps = rng.choice([1, 1, 2, 2, 3, 4 if big else 2])
        last_path = None
        for k in range(n_steps):
            src = 'world' if k == 0 or rng.random() < 0.35 else 'prev'
            via = rng.choice(['ems', 'ems', 'ems', 'utils_name', 'utils_array'])
            if src == 'world' and last_path and rng.random() < 0.4:
                path = last_path
            else:
                path = f'out{k}.nc'
            faults = []
            if rng.random() < 0.4:
                seam, kinds = rng.choice([
                    ('write', ['ENOSPC', 'EIO', 'EACCES', 'partial', 'crash', 'crash_after']),
                    ('write', ['crash_after', 'partial']),
                    ('read', ['EIO', 'EIO', 'crash']),       # the source is still on disk when the save starts
                    ('ncfix.open', ['EACCES', 'EIO', 'crash']),
                    ('ncfix.setncattr', ['EIO', 'crash']),
                    ('ncfix.sync', ['EIO', 'ENOSPC', 'crash']),
                ])
                faults.append({'seam': seam, 'nth': 1 if seam != 'read' else rng.choice([1, 1, 2, 3, 5]), 'kind': rng.choice(kinds)})
                if faults[-1]['kind'] not in ('crash', 'crash_after', 'partial') and rng.random() < 0.35:
                    faults[-1]['persistent'] = True    # the condition does not clear by itself: a retry inside the call must not turn it into success
            end = 'crash_after_ack' if rng.random() < 0.4 else 'exit'
            steps.append({'op': 'save', 'src': src, 'via': via, 'path': path, 'faults': faults, 'end': end})
            if rng.random() < 0.25:
                steps[-1]['relative_path'] = True
            if world['time'] and src == 'world' and rng.random() < 0.12:
                steps[-1]['pick_record'] = rng.randrange(world['time']['n'])
                steps[-1]['path'] = path = f'pick{k}.nc'      # a file of its own: never the source of a later full save
            if not faults and rng.random() < 0.3:
                steps[-1]['again'] = f'again{k}.nc'      # the same in-memory object saved a second time (nothing the first save did to it may matter)
            if faults and faults[0]['kind'] not in ('crash', 'crash_after') and rng.random() < 0.5:
                # bounded liveness inside the *same* process: once the fault is over, one more attempt must work
                # (nothing - xarray's file cache, module state - may stay poisoned)
                steps[-1]['inproc_retry'] = path if rng.random() < 0.5 else f'inproc{k}.nc'
            if faults:
                steps.append({'op': 'save', 'src': src, 'via': via, 'retry': True,
                              'path': path if rng.random() < 0.6 else f'retry{k}.nc', 'faults': [], 'end': 'exit'})
            last_path = steps[-1]['path']
        plan = {'engine': self.name, 'world': world, 'env': {'tz': tz}, 'ops': steps, 'units_meta': meta}
        if world['time'] and rng.random() < 0.2:
            world['analysis_time'] = True
        if rng.random() < (0.03 if not big else 0.01):
            # fault-free saves of this plan run in fresh interpreters under this hash seed (what a user's process has:
            # the forked lifetimes all share the harness's PYTHONHASHSEED=0)
            plan['fresh_hashseed'] = rng.randrange(1, 100000)
            world['analysis_time'] = bool(world['time'])
        return plan

    def shrink(self, plan):
        if plan.get('fresh_hashseed'):
            p = copy.deepcopy(plan)
            p.pop('fresh_hashseed')
            yield p
        yield from common.ddmin_ops(plan)
        if plan['env'].get('tz') not in (None, 'UTC0'):
            p = copy.deepcopy(plan)
            p['env']['tz'] = 'UTC0'
            yield p
        yield from common.shrink_world_in_plan(plan)
        for k, op in enumerate(plan['ops']):
            if op['via'] != 'ems':
                p = copy.deepcopy(plan)
                p['ops'][k]['via'] = 'ems'
                yield p
            if op['src'] != 'world':
                p = copy.deepcopy(plan)
                p['ops'][k]['src'] = 'world'
                yield p

    def predicate(self, pred, plan, v):
        if pred == 'time_offset_single_digit_or_negative_fraction':
            return True
        return True

    # -- execution -----------------------------------------------------------------------
    def run(self, plan, scratch, out):
        world = worldgen.World(plan['world'])
        tz = plan['env'].get('tz')
        prev_path = None
        prev_units = None
        acked_any = False
        sig_steps = []
        for k, step in enumerate(plan['ops']):
            src_path = prev_path if step['src'] == 'prev' else None
            if src_path is not None and os.path.basename(src_path) == step['path']:
                # saving onto the file the lazily-opened source still reads from is a user hazard
                # (an xarray limitation), not part of the property: use the world as the source
                src_path = None
            if plan.get('fresh_hashseed') and not step['faults'] and step['end'] == 'exit':
                res = _run_fresh(plan['fresh_hashseed'], plan['world'], step, scratch, tz, src_path)
                out.stats['probe.save_in_fresh_interpreter_other_hashseed'] += 1
            else:
                res = lifetimes.run_lifetime(_save_lifetime, plan['world'], step, scratch, tz, src_path)
            if res['status'] in ('harness_error', 'timeout'):
                out.harness_error = f'step {k}: {res["error"]}'
                return
            for kind, payload in res['events']:
                out.event(kind, step=k, **payload)
                if kind == 'probe':
                    out.stats[f"probe.{payload['name']}"] += 1
            out.event('lifetime_end', step=k, status=res['status'])
            done = [p for kk, p in res['events'] if kk == 'op_done']
            raised = [p for kk, p in res['events'] if kk == 'op_raised']
            fired = [p for kk, p in res['events'] if kk == 'fault_fired']
            for f in fired:
                out.stats[f"fault.{f['seam']}.{f['kind']}"] += 1
            out.stats[f'end.{res["status"]}'] += 1
            acked = bool(done) and done[0]['acked']
            sig_steps.append((step['via'], step['src'], step['end'], tuple((f['seam'], f['kind']) for f in fired), acked))
            if raised and not fired:
                r = raised[0]
                out.violate('C17', 'save-raised', r['frame'], f"fault-free save raised {r['exc']}: {res['obs'].get('raised_msg')}")
            if raised and fired and not raised[0]['injected'] and raised[0]['exc'] not in ('OSError', 'InjectedOSError'):
                out.stats['probe.fault_surfaced_as_other_exception'] += 1
            if not acked:
                if step.get('retry'):
                    out.stats['probe.retry_not_acked'] += 1
                rdone = [p for kk, p in res['events'] if kk == 'retry_done']
                rraised = [p for kk, p in res['events'] if kk == 'retry_raised']
                if rraised:
                    out.violate('C17', 'retry-in-same-process-raised', rraised[0]['frame'],
                                f"after the fault was over, one more save in the same process raised {rraised[0]['exc']}: {res['obs'].get('retry_msg')}")
                elif rdone and rdone[0]['acked']:
                    path2 = os.path.join(scratch, step['inproc_retry'])
                    obs2 = lifetimes.run_lifetime(common.observe_file, path2)
                    if obs2['status'] != 'exit':
                        out.harness_error = f'observer failed: {obs2["error"]}'
                        return
                    out.stats['probe.retry_in_same_process_acked'] += 1
                    acked_any = True
                    units2 = self.judge(out, world, step, obs2['obs']['file'], res['obs'].get('pre'), k)
                    out.event('judged_inproc_retry', step=k, units=units2)
                    if step.get('pick_record') is None:
                        prev_path, prev_units = path2, units2
                continue
            # acknowledged: another process reads the file
            path = os.path.join(scratch, step['path'])
            obs = lifetimes.run_lifetime(common.observe_file, path)
            if obs['status'] != 'exit':
                out.harness_error = f'observer failed: {obs["error"]}'
                return
            fobs = obs['obs']['file']
            pre = res['obs'].get('pre')
            acked_any = True
            out.stats['acked_saves'] += 1
            if res['status'] == 'crash_after_ack':
                out.stats['probe.judged_after_ack_then_crash'] += 1
            if fired:
                out.stats['probe.acked_despite_fault'] += 1
            if step.get('retry'):
                out.stats['probe.retry_acked'] += 1
            if step['src'] == 'prev' and src_path:
                out.stats['probe.cycle_save_of_reopened_output'] += 1
            units = self.judge(out, world, step, fobs, pre, k)
            out.event('judged', step=k, units=units, summary=observe.summarise_observation(fobs.get('decoded')))
            if step['src'] == 'prev' and src_path and prev_units is not None and units is not None and units != prev_units:
                out.violate('C17', 'units-fixed-point', None, f'units changed across a save cycle: {prev_units!r} -> {units!r}')
            if step.get('pick_record') is None:
                prev_path, prev_units = path, units      # (a single picked record is not a source for later full saves)
            if step.get('again'):
                rdone = [p for kk, p in res['events'] if kk == 'retry_done']
                rraised = [p for kk, p in res['events'] if kk == 'retry_raised']
                if rraised:
                    out.violate('C17', 'second-save-raised', rraised[0]['frame'],
                                f"saving the same in-memory dataset a second time raised {rraised[0]['exc']}: {res['obs'].get('retry_msg')}")
                elif rdone and rdone[0]['acked']:
                    path2 = os.path.join(scratch, step['again'])
                    obs2 = lifetimes.run_lifetime(common.observe_file, path2)
                    if obs2['status'] != 'exit':
                        out.harness_error = f'observer failed: {obs2["error"]}'
                        return
                    out.stats['probe.second_save_of_same_object_judged'] += 1
                    units2 = self.judge(out, world, step, obs2['obs']['file'], pre, k)
                    out.event('judged_second_save', step=k, units=units2)
                    if units is not None and units2 is not None and units2 != units:
                        out.violate('C17', 'units-fixed-point', None, f'second save of the same object wrote other units: {units!r} -> {units2!r}')
        meta = plan.get('units_meta') or {}
        out.signature = (world.conv, plan['world']['materialise'], tz, meta.get('offset'), meta.get('style'), tuple(sig_steps))
        out.nontrivial = {'C17': acked_any}
        out.stats['runs'] += 1
        out.stats[f'conv.{world.conv}'] += 1
        out.stats[f'tz.{tz}'] += 1
        if meta.get('offset'):
            out.stats[f'probe.offset_{meta["offset"]}'] += 1

    # -- oracle --------------------------------------------------------------------------
    def judge(self, out, world, step, fobs, pre, k):
        P = 'C17'
        if 'decoded' not in fobs:
            info = fobs.get('decoded_error') or {}
            out.violate(P, 'reopen', info.get('frame'), f'acknowledged file cannot be opened: {info}')
            return None
        dec = fobs['decoded']
        want_cls = worldgen.CONV_CLASS[world.conv]
        if dec.get('convention') != want_cls:
            out.violate(P, 'convention', None, f'reopened as {dec.get("convention")!r}, expected {want_cls}')
        # polygons
        polys = dec.get('polygons')
        if isinstance(polys, dict):
            out.violate(P, 'polygons', polys['error'].get('frame'), f'polygons of reopened file raise: {polys["error"]}')
        else:
            ref = pre.get('polygons') if pre else None
            if isinstance(ref, list) and polys != ref:
                out.violate(P, 'polygons', None, 'polygons differ from the source dataset polygons')
            truth = world.polygons()
            if truth is not None and world.explicit_geometry() and not isinstance(ref, dict):
                tl = [None if t is None else [tuple(map(float, c)) for c in t] for t in truth]
                if polys != tl:
                    out.violate(P, 'polygons', None, 'polygons differ from ground truth')
        # data variables vs truth
        picked = step.get('pick_record')
        tdim_ = world.spec['time']['dim'] if world.spec['time'] else None
        for name, info in world.vars.items():
            ov = dec['vars'].get(name)
            if ov is None:
                out.violate(P, 'values', None, f'variable {name} missing from saved file')
                continue
            if picked is not None and tdim_ in info['dims']:
                continue      # one record of it was saved: judged through the time coordinate and the units below
            canon = common.to_canonical(ov, info)
            want = world.canonical_array(name).reshape(info['eshape'] + info['sshape'])
            if canon is None or not common.arrays_equal_nan(canon, want):
                out.violate(P, 'values', None, f'variable {name} differs from stored values')
        # all other variables vs the source observation
        if pre:
            for name, pv in pre['vars'].items():
                if name in world.vars:
                    continue
                if picked is not None and tdim_ in pv['dims']:
                    continue
                ov = dec['vars'].get(name)
                if ov is None:
                    out.violate(P, 'values', None, f'variable {name} missing from saved file')
                    continue
                a = common.decode_missing(pv['values'], pv['attrs'], pv.get('encoding'))
                b = common.decode_missing(ov['values'], ov['attrs'], ov.get('encoding'))
                if ov['dims'] != pv['dims'] or not common.arrays_equal_nan(a, b):
                    out.violate(P, 'values', None, f'variable {name} differs from source')
        # time instants and units
        units = None
        t = world.spec['time']
        raw = fobs.get('raw') or {}
        if t:
            tv = dec['vars'].get(t['name'])
            want = world.time_instants()
            if picked is not None:
                want = [want[picked % len(want)]]
            if tv is None or tv['values'].dtype.kind != 'M':
                out.violate(P, 'time-instants', None, f'time variable missing or not decoded: {None if tv is None else tv["dtype"]}')
            else:
                got = numpy.atleast_1d(tv['values']).astype('datetime64[s]').astype('int64').tolist()
                sub = numpy.atleast_1d(tv['values']).astype('datetime64[ns]').astype('int64') % 1_000_000_000
                if got != want or sub.any():
                    out.violate(P, 'time-instants', None, f'time instants differ: got {got[:3]} want {want[:3]}')
            rv = raw.get(t['name'])
            if rv is not None:
                units = rv['ncattrs'].get('units')
                if not isinstance(units, str) or not UNITS_RE.match(units):
                    out.violate(P, 'units-format', None, f'units {units!r} not of the EMS form')
                else:
                    try:
                        period, epoch = worldgen.parse_time_units(units)
                        p0, e0 = worldgen.parse_time_units(t['units'])
                        if epoch != e0 or period != p0:
                            out.violate(P, 'units-instant', None, f'units {units!r} denote another reference instant/period than {t["units"]!r}')
                    except ValueError:
                        out.violate(P, 'units-format', None, f'units {units!r} unparseable')
        # no new _FillValue attributes
        if pre:
            for name, rv in raw.items():
                pv = pre['vars'].get(name)
                if pv is None:
                    continue
                had = '_FillValue' in pv['attrs'] or '_FillValue' in (pv.get('encoding') or {})
                if '_FillValue' in rv['ncattrs'] and not had:
                    out.violate(P, 'new-fillvalue', None, f'variable {name} gained a _FillValue attribute')
        return units


class _RecordingCtx:
    """Stands in for lifetimes.ChildCtx when a lifetime runs as the main program of a fresh interpreter."""

    def __init__(self):
        self.events, self.obs = [], {}

    def emit(self, _ev, **payload):
        self.events.append((_ev, payload))

    def observe(self, key, value):
        self.obs[key] = value

    def crash(self, code=137):
        os._exit(code)

    def crash_after_ack(self):
        os._exit(0)

    def terminate(self):
        os._exit(143)


def _run_fresh(hashseed, world_spec, step, scratch, tz, src_path):
    """The same lifetime function in a fresh interpreter with a real PYTHONHASHSEED."""
    import pickle
    import subprocess
    import sys
    lifetimes._LIFETIME_NO += 1
    args = os.path.join(scratch, f'fresh_args_{lifetimes._LIFETIME_NO}.pkl')
    outp = os.path.join(scratch, f'fresh_out_{lifetimes._LIFETIME_NO}.pkl')
    with open(args, 'wb') as f:
        pickle.dump({'world': world_spec, 'step': step, 'scratch': scratch, 'tz': tz, 'src_path': src_path, 'out': outp,
                     'uuid_tag': f'{lifetimes._RUN_TAG}/fresh{lifetimes._LIFETIME_NO}'}, f)
    env = dict(os.environ, PYTHONHASHSEED=str(hashseed), VERIF_NO_REEXEC='1')
    p = subprocess.run([sys.executable, '-m', 'engines.savesim', args], capture_output=True, text=True, env=env,
                       cwd=os.path.dirname(os.path.dirname(os.path.abspath(__file__))), timeout=300)
    if p.returncode != 0 or not os.path.exists(outp):
        return {'status': 'harness_error', 'error': f'fresh interpreter failed ({p.returncode}): {p.stdout[-300:]} {p.stderr[-1500:]}', 'events': [], 'obs': {}}
    with open(outp, 'rb') as f:
        got = pickle.load(f)
    return {'status': 'exit', 'code': 0, 'events': got['events'], 'obs': got['obs'], 'error': None}


def _fresh_main():
    import pickle
    import sys

    from sim import bootstrap
    bootstrap.ensure_env()
    with open(sys.argv[1], 'rb') as f:
        a = pickle.load(f)
    common.warm()
    lifetimes.seed_uuid(a['uuid_tag'])
    ctx = _RecordingCtx()
    _save_lifetime(ctx, a['world'], a['step'], a['scratch'], a['tz'], a['src_path'])
    with open(a['out'], 'wb') as f:
        pickle.dump({'events': ctx.events, 'obs': ctx.obs}, f)


def _save_lifetime(ctx, world_spec, step, scratch, tz, src_path):
    import xarray

    import emsarray
    import emsarray.utils
    seams.set_tz(tz)
    ctl = seams.FaultController(ctx)
    raw = seams.install_xarray_seams(ctl)
    seams.install_ncfix_seam(ctl)
    world = worldgen.World(world_spec)
    if src_path is not None:
        ds = raw['open_dataset'](src_path)
        ds_pre = raw['open_dataset'](src_path)
    else:
        ds = common.open_world(world, scratch, raw={'to_netcdf': raw['to_netcdf'], 'open_dataset': raw['open_dataset']})
        # observed through a second, independent handle: the dataset that gets saved is still as lazy as it was opened
        ds_pre = ds if world_spec['materialise'] == 'memory' else common.open_world(
            world, scratch, raw={'to_netcdf': raw['to_netcdf'], 'open_dataset': raw['open_dataset']})
    try:
        pre = observe.observe_dataset(ds_pre, polygons=True)
    except Exception as e:
        pre = None
        ctx.emit('pre_observe_failed', **{k: v for k, v in observe.exc_info(e).items() if k != 'msg'})
    ctx.observe('pre', pre)
    if step.get('pick_record') is not None and world_spec['time']:
        # one record picked out of the file (isel(time=k)): the time coordinate is a scalar now
        tdim__ = world_spec['time']['dim']
        ds = ds.isel({tdim__: step['pick_record'] % ds.sizes[tdim__]})
        ctx.emit('probe', name='scalar_time_coordinate')
    path = os.path.join(scratch, step['path'])
    if step.get('relative_path'):
        # the caller works inside the output directory and gives a bare file name
        os.chdir(scratch)
        path = step['path']
        ctx.emit('probe', name='bare_relative_output_name')
    t = world_spec['time']
    ctl.begin_op('save', step['faults'])
    acked = False
    try:
        if step['via'] == 'ems':
            ds.ems.to_netcdf(path)
        elif step['via'] == 'utils_name':
            emsarray.utils.to_netcdf_with_fixes(ds, path, time_variable=t['name'] if t else None)
        else:
            emsarray.utils.to_netcdf_with_fixes(ds, path, time_variable=ds[t['name']] if t else None)
        acked = True
    except Exception as e:
        info = observe.exc_info(e)
        ctx.emit('op_raised', exc=info['exc'], frame=info['frame'], injected=info['injected'])
        ctx.observe('raised_msg', info['msg'])
    fired, unfired, counts = ctl.end_op()
    ctx.emit('op_done', acked=acked, unfired=[(f['seam'], f['kind']) for f in unfired], crossings=dict(sorted(counts.items())))
    if acked and step.get('again'):
        step = dict(step, inproc_retry=step['again'])
        acked = False
        ctx.emit('second_save_of_same_object')
    if not acked and step.get('inproc_retry'):
        path2 = os.path.join(scratch, step['inproc_retry']) if not step.get('relative_path') else step['inproc_retry']
        ctl.begin_op('save_retry', [])
        acked2 = False
        try:
            if step['via'] == 'ems':
                ds.ems.to_netcdf(path2)
            elif step['via'] == 'utils_name':
                emsarray.utils.to_netcdf_with_fixes(ds, path2, time_variable=t['name'] if t else None)
            else:
                emsarray.utils.to_netcdf_with_fixes(ds, path2, time_variable=ds[t['name']] if t else None)
            acked2 = True
        except Exception as e:
            info = observe.exc_info(e)
            ctx.emit('retry_raised', exc=info['exc'], frame=info['frame'], injected=info['injected'])
            ctx.observe('retry_msg', info['msg'])
        ctl.end_op()
        ctx.emit('retry_done', acked=acked2)
    if step['end'] == 'crash_after_ack':
        ctx.crash_after_ack()


ENGINE = SaveSim()


if __name__ == '__main__':
    _fresh_main()
