"""
keysim - C16: the cache key must be a function of geometry + convention only.  The mechanism
serialises attributes with marshal, whose output depends on reference counts and interning,
i.e. on the *process history* of the dataset object; the statement also quantifies over
processes.  The simulator owns that history (copies, extra references, gc, pickling, touching)
and the processes (fresh interpreters with other hash seeds reading the same files).
"""
from __future__ import annotations

import copy
import gc
import json
import os
import pickle
import subprocess
import sys

import numpy

from sim import lifetimes, observe, worldgen
from . import common

HISTORY_OPS = ['copy', 'copy_deep', 'copy_module', 'pickle', 'hold_refs', 'hold_refs', 'drop_refs', 'gc', 'touch', 'load', 'key', 'key', 'memory_layout', 'memory_layout',
               'print_options', 'dtype_spelling', 'other_byte_order', 'logging_debug', 'warnings_error']
CREATES_HANDLE = ('copy', 'copy_deep', 'copy_module', 'pickle', 'dtype_spelling', 'other_byte_order')
NONGEOM_EDITS = ['add_var', 'drop_var', 'alter_var', 'slice_time', 'global_attr', 'data_var_attr', 'one_time_step', 'scalar_coord']
GEOM_EDITS = ['value', 'dtype_same_bytes', 'shape_same_bytes', 'rename', 'attr_add', 'attr_change', 'attr_remove', 'convention', 'attr_array', 'attr_empty']


class KeySim:
    name = 'keysim'
    properties = ['C16']

    def budget(self, prop, tier):
        return {'quick': {'runs': 3000, 'seconds': 50}, 'thorough': {'runs': 150000, 'seconds': 600}}[tier]

    def rule(self, prop):
        return ('plans drawn from VERIF_SEED: one generated geometry (every convention) materialised as built-in-memory / '
                'written-and-reopened / reopened twice / time-split open_mfdataset, then 4-12 ops: history ops that must never move a '
                'key (copy x3, pickle, hold extra references to attribute values and dicts, drop them, gc, touch, load, repeated '
                'key, memory layout, numpy print options, on-disk dtype spelled another way, the other byte order), non-geometry edits (add/drop/alter data variable, slice time, global attribute, data-variable attribute) '
                'and single geometry edits (one value, dtype with same bytes, shape with same bytes, rename, attribute (scalar or array valued) '
                'add/change/remove, convention class) ; a sample of plans recomputes keys of the on-disk datasets in fresh '
                'interpreters under other PYTHONHASHSEEDs. History oracle: equal within (materialisation, geometry) class, '
                'different across a single geometry edit. Non-trivial = >= 2 key events in one class after a history op or '
                'non-geometry edit, or one geometry edit. Distinct = distinct (convention, materialisations, op-kind sequence).')

    def real_vs_stub(self):
        return {'real': ['emsarray.operations.cache, Convention.hash_geometry, get_all_geometry_names (working tree)', 'marshal, hashlib', 'xarray, netCDF4',
                         'fresh interpreters with other PYTHONHASHSEED for sampled plans'],
                'stub': ['none: the history of the dataset object is driven through the public xarray API']}

    def assumptions(self, prop):
        return ['geometry classes are defined by the generator (it knows which edit touched geometry), never by get_all_geometry_names',
                'different materialisations (in-memory vs decoded from file) are not required to agree; single-file vs time-split multi-file are',
                'only parent-vs-edited keys are required to differ (collisions between unrelated edits are not judged)']

    def gen_plan(self, rng, tier):
        big = tier == 'thorough'
        world = worldgen.gen_world(rng, max_n=4 if big else 3, max_faces=8 if big else 5, max_vars=3, with_time=True,
                                   allow_perm=False, materialise='memory', min_vars=1)
        world['time']['n'] = max(2, world['time']['n'])
        world['time']['values'] = list(range(10, 10 + world['time']['n']))
        for v in world['vars']:
            for e in v['extra']:
                if e[0] == world['time']['dim']:
                    e[1] = world['time']['n']
        world['array_attrs'] = rng.random() < 0.3
        is_big = rng.random() < (0.02 if not big else 0.01)
        if is_big:
            # a geometry of more than a mebibyte per coordinate variable (anything that treats large or lazily loaded
            # arrays differently from small in-memory ones): one small variable, no bounds, given by a formula
            world = worldgen.gen_world(rng, convs=['cf2d'], max_n=3, max_vars=1, with_time=True, allow_perm=False,
                                       materialise='memory', allow_holes=False, allow_coords_as_vars=False)
            world['time']['n'] = 2
            world['time']['values'] = [10, 11]
            world.update({'ny': rng.randint(361, 380), 'nx': rng.randint(365, 390), 'bounds': False, 'bounds_as_coords': False, 'holes': [],
                          'corners': {'x0': round(rng.uniform(100, 140), 6), 'y0': round(rng.uniform(-40, -20), 6),
                                      'dx': 0.0101, 'dy': 0.0097, 'skew': round(rng.uniform(0.01, 0.2), 4)},
                          'file_fill_style': None, 'array_attrs': False})
            world['vars'] = world['vars'][:1]
            world['vars'][0].update({'kind': 'face', 'extra': [], 'dtype': 'f4', 'fill': None, 'fillv': None, 'pack': None, 'missing_frac': 0, 'perm': None})
        mats = rng.choice([['memory'], ['file'], ['memory', 'file'], ['file', 'file2'], ['file', 'mf'], ['memory', 'file', 'mf'],
                           ['file', 'chunk1'], ['file', 'chunk2', 'chunk_all'], ['chunk1', 'mf']])
        if is_big:
            mats = rng.choice([['file'], ['file', 'chunk_all'], ['memory', 'file']])
        ops = []
        n_handles = len(mats)
        for _ in range(rng.randint(4, 12) if not is_big else rng.randint(3, 6)):
            r = rng.random()
            if r < 0.55:
                kind = rng.choice(HISTORY_OPS)
            elif r < 0.78:
                kind = rng.choice(NONGEOM_EDITS)
            elif r < 0.95:
                kind = rng.choice(GEOM_EDITS)
            else:
                kind = 'persist'
            op = {'op': kind, 'h': rng.randrange(n_handles), 'arg': rng.randrange(1000)}
            ops.append(op)
            if kind in CREATES_HANDLE + ('persist',) or kind in NONGEOM_EDITS or kind in GEOM_EDITS:
                n_handles += 1
        p_fresh = 0.02 if not big else 0.008
        if world['conv'] == 'ugrid' and (len(world.get('tables') or []) >= 2 or world.get('face_coords')):
            p_fresh *= 6      # several optional geometry variables: the order they are hashed in must not depend on the hash seed
        fresh = [rng.randrange(1, 100000) for _ in range(2)] if rng.random() < p_fresh else []
        if fresh and not any(m != 'memory' for m in mats):
            mats = mats + ['file']
        return {'engine': self.name, 'world': world, 'mats': mats, 'ops': ops, 'fresh_hashseeds': fresh}

    def shrink(self, plan):
        if plan['fresh_hashseeds']:
            p = copy.deepcopy(plan)
            p['fresh_hashseeds'] = []
            yield p
        creates = set(list(CREATES_HANDLE) + ['persist'] + NONGEOM_EDITS + GEOM_EDITS)
        for k in reversed(range(len(plan['ops']))):
            p = copy.deepcopy(plan)
            if plan['ops'][k]['op'] in creates:
                p['ops'][k] = {'op': 'noop_handle', 'h': plan['ops'][k]['h'], 'arg': 0}   # keeps handle numbering
            else:
                del p['ops'][k]
            if p['ops'] != plan['ops']:
                yield p
        while False:
            yield
        if plan['ops'] and all(o['op'] == 'noop_handle' for o in plan['ops'][-1:]):
            p = copy.deepcopy(plan)
            p['ops'].pop()
            yield p
        if len(plan['mats']) > 1:
            used = {o['h'] for o in plan['ops']}
            for k in reversed(range(len(plan['mats']))):
                if k not in used and k == len(plan['mats']) - 1 and not any(o['h'] >= len(plan['mats']) for o in plan['ops']):
                    p = copy.deepcopy(plan)
                    del p['mats'][k]
                    yield p
        yield from common.shrink_world_in_plan(plan)

    def predicate(self, pred, plan, v):
        return True

    def run(self, plan, scratch, out):
        res = lifetimes.run_lifetime(_key_lifetime, plan, scratch)
        if res['status'] != 'exit':
            out.harness_error = f'lifetime: {res["status"]}: {res["error"]}'
            return
        keys = []       # (handle, cls, key)
        edges = []      # (parent handle, child handle, edit)
        files = {}
        since_change = {}
        nontrivial = False
        for kind, payload in res['events']:
            out.event(kind, **payload)
            if kind == 'key':
                keys.append((payload['h'], tuple(payload['cls']), payload['key']))
            elif kind == 'geom_edit':
                edges.append((payload['parent'], payload['h'], payload['edit']))
                out.stats[f'edit.{payload["edit"]}'] += 1
                nontrivial = True
            elif kind == 'op':
                out.stats[f'op.{payload["op"]}'] += 1
            elif kind == 'probe':
                out.stats[f"probe.{payload['name']}"] += 1
            elif kind == 'op_error':
                out.violate('C16', 'key-raised' if payload['op'] == 'key' else 'op-raised', payload.get('frame'),
                            f"{payload['op']} raised {payload['exc']}: {res['obs'].get('msg%d' % payload['n'])}")
            elif kind == 'file':
                files[os.path.join(scratch, payload['path'])] = tuple(payload['cls'])
            elif kind == 'skipped':
                out.stats['skipped_ops'] += 1
        keys = [(h, cls, res['obs'].get(f'key:{kid}', kid)) for h, cls, kid in keys]
        by_cls = {}
        for h, cls, key in keys:
            by_cls.setdefault(cls, []).append((h, key))
        def real(k):
            return k.split('|')[0]

        def canon(k):
            return k.split('|')[-1]
        for cls, hk in by_cls.items():
            ks = {real(k) for _, k in hk}
            cs = {canon(k) for _, k in hk}
            if len(hk) >= 2:
                nontrivial = True
            if len(ks) > 1:
                first = hk[0]
                other = next(x for x in hk if real(x[1]) != real(first[1]))
                # why did it move?  if the diagnostic key (attribute serialisation canonicalised) is stable, the cause is
                # marshal's reference-count / interning dependent output; otherwise something else entered the key
                clause = 'key-moved-attr-serialisation' if len(cs) == 1 else 'key-moved'
                out.violate('C16', clause, None,
                            f'class {cls}: handle #{first[0]} has key {real(first[1])[:12]} but handle #{other[0]} has {real(other[1])[:12]} although geometry and convention are the same')
        key_of = {}
        for h, cls, key in keys:
            key_of.setdefault(h, key)
        handle_cls = {h: cls for h, cls, _ in keys}
        for parent, child, edit in edges:
            if parent in key_of and child in key_of:
                if real(key_of[parent]) == real(key_of[child]) or canon(key_of[parent]) == canon(key_of[child]):
                    out.violate('C16', f'key-blind-{edit}', None, f'geometry edit {edit!r} (handle #{parent} -> #{child}) did not change the key')
        # fresh interpreters: same on-disk datasets, other hash seeds
        if plan['fresh_hashseeds'] and files:
            for seed in plan['fresh_hashseeds']:
                env = dict(os.environ)
                env['PYTHONHASHSEED'] = str(seed)
                env['VERIF_NO_REEXEC'] = '1'
                spec = {'files': sorted(files), 'mf': res['obs'].get('mf_files'), 'tdim': plan['world']['time']['dim']}
                p = subprocess.run([sys.executable, '-m', 'engines.keysim', json.dumps(spec)], capture_output=True, text=True, env=env,
                                   cwd=os.path.dirname(os.path.dirname(os.path.abspath(__file__))), timeout=300)
                line = [ln for ln in p.stdout.splitlines() if ln.startswith('KEYS ')]
                if not line:
                    out.harness_error = f'fresh interpreter failed: {p.stdout[-300:]} {p.stderr[-1500:]}'
                    return
                fk = json.loads(line[0][5:])
                out.stats['probe.fresh_interpreter'] += 1
                for path, key in fk.items():
                    cls = files.get(path) if path != '__mf__' else ('file', 0)
                    mine = {real(k) for _, k in by_cls.get(cls, [])}
                    mine_c = {canon(k) for _, k in by_cls.get(cls, [])}
                    if mine and real(key) not in mine:
                        clause = 'key-differs-across-processes' if canon(key) not in mine_c else 'key-moved-attr-serialisation'
                        out.violate('C16', clause, None,
                                    f'{os.path.basename(path)}: key in a fresh interpreter (PYTHONHASHSEED={seed}) is {str(key)[:12]}, in this process {sorted(k[:12] for k in mine)}')
                    elif mine_c and canon(key) not in mine_c:
                        out.violate('C16', 'key-differs-across-processes', None,
                                    f'{os.path.basename(path)}: diagnostic key differs in a fresh interpreter (PYTHONHASHSEED={seed})')
                out.event('fresh', seed_ix=plan['fresh_hashseeds'].index(seed), n=len(fk))
        out.signature = (plan['world']['conv'], tuple(plan['mats']), tuple(o['op'] for o in plan['ops']), bool(plan['fresh_hashseeds']))
        out.nontrivial = {'C16': nontrivial}
        out.stats['runs'] += 1
        if isinstance(plan['world'].get('corners'), dict):
            out.stats['probe.geometry_variables_over_1MiB'] += 1
        if plan['world'].get('array_attrs'):
            out.stats['probe.array_valued_geometry_attributes'] += 1
        out.stats['key_events'] += len(keys)
        out.stats[f'conv.{plan["world"]["conv"]}'] += 1


# ----------------------------------------------------------------------------------------

def _geometry_variable_names(world):
    return world.geometry_names()


def _open_mf(paths, tdim):
    import xarray
    return xarray.open_mfdataset(paths, combine='nested', concat_dim=tdim, data_vars='minimal', coords='minimal', compat='override')


def _key_lifetime(ctx, plan, scratch):
    import xarray

    import emsarray
    from emsarray.conventions.grid import CFGrid2D
    from emsarray.operations.cache import make_cache_key
    world = worldgen.World(plan['world'])
    tdim = plan['world']['time']['dim']
    handles = []          # dict(ds, cls)
    n_err = [0]
    held = []
    n_geom_class = [0]
    n_persist = [0]

    cur = {'h': None}

    def add(ds, cls, parent=None, edit=None, gv=None):
        if gv is None:
            gv = handles[parent]['gv'] if parent is not None else world.geometry_names()
        forced = None
        src = parent if parent is not None else cur['h']
        if edit == 'convention':
            forced = CFGrid2D
        elif src is not None and handles[src].get('forced') is not None:
            # copies of a manually bound dataset are unbound and would autodetect another class:
            # bind the same class so the copy stays in its parent's (geometry, convention) class
            forced = handles[src]['forced']
            from emsarray.state import State
            if not State.get(ds).is_bound():
                forced(ds).bind()
        handles.append({'ds': ds, 'cls': cls, 'gv': list(gv), 'forced': forced,
                        'may_refuse': bool(src is not None and src < len(handles) and handles[src].get('may_refuse'))})
        h = len(handles) - 1
        if edit is not None:
            ctx.emit('geom_edit', parent=parent, h=h, edit=edit)
        return h

    base_path = os.path.join(scratch, 'base.nc')
    mf_paths = None
    for m in plan['mats']:
        if m == 'memory':
            add(world.dataset(), ('memory', 0))
        else:
            if not os.path.exists(base_path):
                common.write_world_file(world, base_path)
                ctx.emit('file', path=os.path.basename(base_path), cls=('file', 0))
            if m in ('file', 'file2'):
                add(xarray.open_dataset(base_path), ('file', 0))
            elif m in ('chunk1', 'chunk2', 'chunk_all'):
                # the same file opened lazily with dask under another chunk layout: same geometry, same key
                probe = xarray.open_dataset(base_path)
                sizes = dict(probe.sizes)
                probe.close()
                chunks = {} if m == 'chunk_all' else {d: (1 if m == 'chunk1' else 2) for d in sizes}
                add(xarray.open_dataset(base_path, chunks=chunks), ('file', 0))
            else:
                if mf_paths is None:
                    src = xarray.open_dataset(base_path)
                    mf_paths = []
                    for k in range(src.sizes[tdim]):
                        p = os.path.join(scratch, f'part{k}.nc')
                        part = src.isel({tdim: [k]})
                        part.to_netcdf(p)
                        mf_paths.append(p)
                    src.close()
                    ctx.observe('mf_files', mf_paths)
                add(_open_mf(mf_paths, tdim), ('file', 0))

    key_ids = {}

    canonical_key = _canonical_key

    env_flags = {}

    def record_key(h):
        try:
            if env_flags.get('warnings_error'):
                import warnings
                with warnings.catch_warnings():
                    warnings.simplefilter('error')
                    key = make_cache_key(handles[h]['ds'])
            else:
                key = make_cache_key(handles[h]['ds'])
            key = key + '|' + canonical_key(handles[h]['ds'])
            # the log records *which* keys are equal, not their bytes (the bytes legitimately depend on the emsarray version)
            kid = key_ids.setdefault(key, f'K{len(key_ids)}')
            ctx.emit('key', h=h, cls=handles[h]['cls'], key=kid)
            ctx.observe(f'key:{kid}', key)
        except Exception as e:
            info = observe.exc_info(e)
            if handles[h].get('may_refuse'):
                # an on-disk type spelled as a string / type object instead of a numpy.dtype: refusing it loudly is fine,
                # accepting it must give the key of the same type spelled the usual way
                ctx.emit('probe', name='key_refused_for_unusual_dtype_spelling')
                return
            n_err[0] += 1
            ctx.observe('msg%d' % n_err[0], info['msg'])
            ctx.emit('op_error', op='key', exc=info['exc'], frame=info['frame'], n=n_err[0])

    def geom_vars(ds):
        names = handles[cur['h']]['gv'] if cur['h'] is not None else world.geometry_names()
        return [n for n in names if n in ds.variables]

    _add = add

    def add(ds, cls, parent=None, edit=None, gv=None):  # noqa: F811
        if parent is None and gv is None and cur['h'] is not None:
            gv = handles[cur['h']]['gv']
        return _add(ds, cls, parent=parent, edit=edit, gv=gv)

    for h in range(len(handles)):
        record_key(h)

    def new_geom_cls(cls):
        n_geom_class[0] += 1
        return (cls[0], n_geom_class[0])

    for k, op in enumerate(plan['ops']):
        kind, h, arg = op['op'], op['h'], op['arg']
        if h >= len(handles) or handles[h]['ds'] is None:
            ctx.emit('skipped', k=k, op=kind)
            if kind not in HISTORY_OPS or kind in CREATES_HANDLE:
                handles.append({'ds': None, 'cls': None})
            continue
        if handles[h].get('fragile') and kind not in ('key', 'gc', 'hold_refs', 'drop_refs', 'touch', 'print_options'):
            # a dataset in non-native byte order: numpy / pickle / netCDF hand back native arrays, i.e. another type; only
            # operations that leave the object alone are meaningful on it
            ctx.emit('skipped', k=k, op=kind)
            if kind not in HISTORY_OPS or kind in CREATES_HANDLE:
                handles.append({'ds': None, 'cls': None})
            continue
        ds, cls = handles[h]['ds'], handles[h]['cls']
        cur['h'] = h
        ctx.emit('op', k=k, op=kind, h=h)
        try:
            if kind == 'noop_handle':
                handles.append({'ds': None, 'cls': None})
            elif kind == 'key':
                pass
            elif kind == 'copy':
                record_key(add(ds.copy(), cls))
            elif kind == 'copy_deep':
                record_key(add(ds.copy(deep=True), cls))
            elif kind == 'copy_module':
                record_key(add(copy.copy(ds), cls))
            elif kind == 'pickle':
                record_key(add(pickle.loads(pickle.dumps(ds)), cls))
            elif kind == 'hold_refs':
                for name in geom_vars(ds):
                    var = ds.variables[name]
                    held.append(var.attrs)
                    held.extend(list(var.attrs.keys()))
                    held.extend(list(var.attrs.values()))
                held.append(dict(ds.attrs))
            elif kind == 'drop_refs':
                del held[:]
            elif kind == 'gc':
                gc.collect()
            elif kind == 'touch':
                for name in geom_vars(ds):
                    var = ds[name]
                    var.attrs, var.encoding, var.values
                    str(var.attrs)
                try:
                    ds.ems.polygons
                except Exception:
                    pass
            elif kind == 'load':
                ds.load()
            elif kind == 'dtype_spelling':
                # the declared on-disk type of the geometry variables, spelled another way (xarray accepts all of these)
                new = ds.copy()
                for name in geom_vars(ds):
                    var = new.variables[name]
                    dt = numpy.dtype(var.encoding.get('dtype', var.dtype))
                    if dt.kind in 'fiu':
                        var.encoding['dtype'] = [dt.name, dt.str, dt.type, dt.char][arg % 4]
                nh = add(new, cls)
                handles[nh]['may_refuse'] = True
                record_key(nh)
            elif kind == 'other_byte_order':
                # the same numbers held in the other byte order (as read by a big-endian reader): a dataset of its own
                # (the type differs), whose key must not depend on how often it has been asked for
                new = ds.copy(deep=True)
                for name in geom_vars(ds):
                    var = new.variables[name]
                    vals = numpy.asarray(var.values)
                    if vals.dtype.kind in 'fiu' and vals.dtype.itemsize > 1 and 'dtype' not in var.encoding:
                        enc = dict(var.encoding)
                        new[name] = (var.dims, vals.astype(vals.dtype.newbyteorder('S')), dict(var.attrs))
                        new[name].encoding = enc
                nh = add(new, new_geom_cls(cls))
                handles[nh]['fragile'] = True
                record_key(nh)
                record_key(nh)
                ctx.emit('probe', name='geometry_in_non_native_byte_order')
            elif kind == 'logging_debug':
                # process-wide configuration: verbose logging switched on for emsarray (a handler that swallows the text)
                import io
                import logging
                lg = logging.getLogger('emsarray')
                lg.setLevel(logging.DEBUG if arg % 3 else logging.INFO)
                if not lg.handlers:
                    lg.addHandler(logging.StreamHandler(io.StringIO()))
            elif kind == 'warnings_error':
                # from now on keys are computed the way `python -W error` would: any warning is an exception
                env_flags['warnings_error'] = True
            elif kind == 'print_options':
                # process-wide presentation state: how numpy *prints* arrays has nothing to do with the geometry
                numpy.set_printoptions(precision=1 + arg % 5, threshold=3 + arg % 4, edgeitems=1, suppress=bool(arg % 2))
            elif kind == 'memory_layout':
                # the same values, dtype and shape held in another memory layout (Fortran order, as after a transpose,
                # f2py or loadmat): nothing about the geometry changed
                for name in geom_vars(ds):
                    var = ds.variables[name]
                    if var.ndim >= 2:
                        vals = numpy.asarray(var.values)
                        var.values = numpy.asfortranarray(vals) if not vals.flags['F_CONTIGUOUS'] or vals.flags['C_CONTIGUOUS'] else numpy.ascontiguousarray(vals)
            elif kind == 'persist':
                n_persist[0] += 1
                p = os.path.join(scratch, f'persist{n_persist[0]}.nc')
                out_ds = ds.copy()
                for var in out_ds.variables.values():
                    if 'missing_value' in var.encoding:
                        var.encoding['_FillValue'] = var.encoding['missing_value']
                    if '_FillValue' not in var.attrs and '_FillValue' not in var.encoding:
                        var.encoding['_FillValue'] = None
                def _unstorable(v_):
                    return v_ is None or (hasattr(v_, '__len__') and len(v_) == 0)
                if any(_unstorable(v_) for var in out_ds.variables.values() for v_ in var.attrs.values()):
                    # None / empty attribute values (the `attr_empty` edit) are legal in memory but xarray cannot store them:
                    # no file, no new handle -- not an emsarray failure
                    ctx.emit('skipped', k=k, op=kind)
                    handles.append({'ds': None, 'cls': None})
                    continue
                out_ds.to_netcdf(p)
                pcls = ('persist%d' % n_persist[0], 0)
                ctx.emit('file', path=os.path.basename(p), cls=pcls)
                record_key(add(xarray.open_dataset(p), pcls))
            # -- non-geometry edits ---------------------------------------------------------
            elif kind == 'add_var':
                new = ds.assign(extra_var=((), float(arg)))
                record_key(add(new, cls))
            elif kind == 'drop_var':
                names = [n for n in world.vars if n in ds.data_vars]
                new = ds.drop_vars(names[arg % len(names)]) if names else ds.copy()
                record_key(add(new, cls))
            elif kind == 'alter_var':
                names = [n for n in world.vars if n in ds.data_vars]
                new = ds.copy()
                if names:
                    n = names[arg % len(names)]
                    old_vals = numpy.asarray(new[n].values)
                    if old_vals.dtype.kind in 'Mm':
                        new_vals = old_vals + numpy.timedelta64(7, 's')
                    else:
                        new_vals = old_vals * 0 + 7
                    new[n] = (new[n].dims, new_vals, dict(new[n].attrs))
                record_key(add(new, cls))
            elif kind == 'slice_time':
                new = ds.isel({tdim: slice(0, 1)}) if tdim in ds.sizes else ds.copy()
                record_key(add(new, cls))
            elif kind == 'one_time_step':
                # one record picked out (isel(time=k), ncks -d time,k): time becomes a scalar coordinate
                new = ds.isel({tdim: arg % ds.sizes[tdim]}) if tdim in ds.sizes else ds.copy()
                record_key(add(new, cls))
            elif kind == 'scalar_coord':
                new = ds.assign_coords(run_number=arg)
                record_key(add(new, cls))
            elif kind == 'global_attr':
                new = ds.assign_attrs(history=f'edited {arg}')
                new.attrs.pop('title', None)
                record_key(add(new, cls))
            elif kind == 'data_var_attr':
                names = [n for n in world.vars if n in ds.data_vars]
                new = ds.copy()
                if names:
                    new[names[arg % len(names)]].attrs['comment'] = f'note {arg}'
                record_key(add(new, cls))
            # -- single geometry edits ------------------------------------------------------
            elif kind in GEOM_EDITS:
                gv = geom_vars(ds)
                new = ds.copy(deep=True)
                name = gv[arg % len(gv)]
                edit = kind
                if kind == 'value':
                    cands = [n for n in gv if new[n].size > 0 and (new[n].ndim > 0 or numpy.asarray(new[n].values).dtype.kind in 'iuf')]
                    name = cands[arg % len(cands)]
                    vals = numpy.atleast_1d(numpy.array(new[name].values, order='C'))
                    was_scalar = new[name].ndim == 0
                    # early and late positions alike (the last rows of a large array are as much geometry as the first)
                    pos = arg % vals.size if arg % 2 == 0 else vals.size - 1 - (arg // 2) % min(vals.size, 5)
                    if vals.dtype.kind == 'f':
                        vals.flat[pos] = 12345.678 if not (vals.flat[pos] == 12345.678) else 0.5
                    else:
                        vals.flat[pos] = vals.flat[pos] + 1
                    new[name] = (new[name].dims, vals if not was_scalar else vals.reshape(()), dict(new[name].attrs))
                    new[name].encoding = dict(ds[name].encoding)
                elif kind == 'dtype_same_bytes':
                    cands = [n for n in gv if new[n].ndim > 0 and numpy.asarray(new[n].values).dtype.itemsize in (4, 8)]
                    name = cands[arg % len(cands)]
                    vals = numpy.ascontiguousarray(new[name].values)
                    other = {('f', 8): 'int64', ('i', 8): 'float64', ('f', 4): 'int32', ('i', 4): 'float32'}[(vals.dtype.kind, vals.dtype.itemsize)]
                    enc = dict(ds[name].encoding)
                    enc.pop('dtype', None)
                    new[name] = (new[name].dims, vals.view(other), dict(new[name].attrs))
                    new[name].encoding = enc
                    if 'dtype' in ds[name].encoding:
                        # the key uses the on-disk dtype when recorded: change that too (it *is* the dtype)
                        old_enc = numpy.dtype(ds[name].encoding['dtype'])
                        new_enc = numpy.dtype(other)
                        if new_enc == old_enc:
                            new_enc = numpy.dtype('uint%d' % (8 * old_enc.itemsize)) if old_enc.itemsize in (1, 2, 4, 8) else numpy.dtype('float64')
                        new[name].encoding['dtype'] = new_enc
                elif kind == 'shape_same_bytes':
                    # only variables whose shape emsarray does not need in order to *enumerate* the geometry
                    # (a reshaped face-node table or a 1-D latitude turned 2-D is a different/invalid convention)
                    cands = []
                    for n in gv:
                        shp0 = tuple(new[n].shape)
                        is_bounds = n.endswith('_bnds')
                        if world.conv == 'ugrid':
                            if n in ('Mesh2_node_x', 'Mesh2_node_y', 'Mesh2_face_x', 'Mesh2_face_y') and shp0[0] > 1:
                                cands.append((n, (1,) + shp0))
                        elif is_bounds:
                            cands.append((n, shp0[::-1] if shp0[::-1] != shp0 else (int(numpy.prod(shp0)),)))
                        elif len(shp0) == 2 and shp0[::-1] != shp0 and world.conv in ('cf2d', 'shoc_standard'):
                            cands.append((n, shp0[::-1]))
                    if not cands:
                        ctx.emit('skipped', k=k, op=kind)
                        handles.append({'ds': None, 'cls': None})
                        continue
                    cands = [(n, shp_) for n, shp_ in cands if tuple(shp_) != tuple(new[n].shape)]
                    if not cands:
                        ctx.emit('skipped', k=k, op=kind)
                        handles.append({'ds': None, 'cls': None})
                        continue
                    name, shp = cands[arg % len(cands)]
                    vals = numpy.ascontiguousarray(new[name].values)
                    dims = [f'reshaped_{name}_{i}' for i in range(len(shp))]
                    attrs, enc = dict(new[name].attrs), dict(ds[name].encoding)
                    new = new.drop_vars([n for n in new.data_vars if n not in gv])
                    was_coord = name in new.coords
                    new = new.drop_vars(name)
                    new[name] = (dims, vals.reshape(shp), attrs)
                    new[name].encoding = enc
                    if was_coord:
                        new = new.set_coords(name)
                elif kind == 'rename':
                    # names fixed by the convention itself (SHOC standard coordinates, dimension coordinates) cannot be renamed
                    cands = [n for n in gv if n not in new.dims] if world.conv != 'shoc_standard' else []
                    if not cands:
                        ctx.emit('skipped', k=k, op=kind)
                        handles.append({'ds': None, 'cls': None})
                        continue
                    name = cands[arg % len(cands)]
                    newname = name + '_renamed'
                    new = new.rename({name: newname})
                    ref_attrs = ('bounds', 'coordinates', 'node_coordinates', 'face_coordinates', 'edge_coordinates',
                                 'face_node_connectivity', 'edge_node_connectivity', 'face_edge_connectivity',
                                 'edge_face_connectivity', 'face_face_connectivity')
                    for vn in list(new.variables):
                        for a, val in list(new[vn].attrs.items()):
                            if a in ref_attrs and isinstance(val, str) and name in val.split():
                                new[vn].attrs[a] = ' '.join(newname if tok == name else tok for tok in val.split())
                elif kind == 'attr_add':
                    # ordinary and underscore-prefixed names alike: every attribute of a geometry variable is geometry
                    aname = ['comment', 'note', '_CoordinateAxisType', '_ChunkSizes', 'valid_min'][arg % 5]
                    new[name].attrs[aname] = f'v{arg}' if aname != 'valid_min' else float(arg)
                elif kind == 'attr_empty':
                    # attributes whose value is empty or None (legal in memory, never survive a file): still attributes.
                    # Added, or (if one is there from an earlier edit) changed to another empty value.
                    empties = [None, (), numpy.array([], dtype='int32'), '', numpy.array([], dtype='float64'), b'']
                    aname = ['valid_range', 'comment', 'flag_values'][arg % 3]
                    if aname in new[name].attrs:
                        edit = 'attr_change'
                        new[name].attrs[aname] = 'no longer empty'
                    else:
                        edit = 'attr_add'
                        new[name].attrs[aname] = empties[(arg // 3) % len(empties)]
                elif kind == 'attr_array':
                    # an array-valued attribute: added, or (if present) one element changed in its 11th significant digit
                    cur_ = new[name].attrs.get('valid_range')
                    if isinstance(cur_, numpy.ndarray) and cur_.size:
                        arr_ = numpy.array(cur_, dtype='float64', copy=True)
                        arr_[arg % arr_.size] = arr_[arg % arr_.size] * (1 + 1e-11) + 1e-13
                        new[name].attrs['valid_range'] = arr_
                        edit = 'attr_change'
                    else:
                        new[name].attrs['valid_range'] = numpy.array([float(arg) - 1000.5, float(arg) + 0.25])
                        edit = 'attr_add'
                elif kind == 'attr_change':
                    keys = sorted(k_ for k_, v_ in new[name].attrs.items() if k_ == 'long_name')
                    if keys:
                        new[name].attrs['long_name'] = str(new[name].attrs['long_name']) + ' (edited)'
                    else:
                        new[name].attrs['long_name'] = 'now present'
                        edit = 'attr_add'
                elif kind == 'attr_remove':
                    if 'long_name' in new[name].attrs:
                        del new[name].attrs['long_name']
                    else:
                        ctx.emit('skipped', k=k, op=kind)
                        handles.append({'ds': None, 'cls': None})
                        continue
                elif kind == 'convention':
                    if world.conv != 'shoc_simple' or type(ds.ems).__name__ != 'ShocSimple':
                        ctx.emit('skipped', k=k, op=kind)
                        handles.append({'ds': None, 'cls': None})
                        continue
                    new = ds.copy()
                    CFGrid2D(new).bind()
                new_gv = [newname if (kind == 'rename' and n == name) else n for n in gv]
                nh = add(new, new_geom_cls(cls), parent=h, edit=edit, gv=new_gv)
                record_key(nh)
            else:
                raise ValueError(kind)
            if kind in HISTORY_OPS and kind not in CREATES_HANDLE:
                record_key(h)
        except Exception as e:
            info = observe.exc_info(e)
            n_err[0] += 1
            ctx.observe('msg%d' % n_err[0], info['msg'])
            ctx.emit('op_error', op=kind, exc=info['exc'], frame=info['frame'], n=n_err[0])
            if len(handles) and (kind in NONGEOM_EDITS or kind in GEOM_EDITS or kind in CREATES_HANDLE + ('persist',)):
                handles.append({'ds': None, 'cls': None})
    # every live handle's key once more at the end of the history
    for h, hd in enumerate(handles):
        if hd['ds'] is not None:
            record_key(h)


def _canonical_key(ds):
    """Diagnostic only: the same key computation with attribute serialisation replaced by a canonical one
    (values only, no reference counts / interning).  Used to tell *why* a key moved."""
    import emsarray.conventions._base as base_mod
    from emsarray.operations.cache import make_cache_key
    real = base_mod.hash_attributes

    def canon(v):
        if isinstance(v, dict):
            return sorted((str(k), canon(x)) for k, x in v.items())
        if isinstance(v, (list, tuple)):
            return [canon(x) for x in v]
        if isinstance(v, numpy.ndarray):
            return ['nd', str(v.dtype), v.shape, v.tobytes().hex()]
        if isinstance(v, numpy.generic):
            return ['np', str(v.dtype), v.tobytes().hex()]
        if isinstance(v, float):
            return ['f', v.hex()]
        return [type(v).__name__, repr(v)]

    def canonical_hash_attributes(hash, attributes):
        hash.update(repr(canon(dict(attributes))).encode())
    base_mod.hash_attributes = canonical_hash_attributes
    try:
        return make_cache_key(ds)
    finally:
        base_mod.hash_attributes = real



def _fresh_main():
    from sim import bootstrap
    bootstrap.ensure_env()
    import xarray
    from emsarray.operations.cache import make_cache_key
    spec = json.loads(sys.argv[1])
    out = {}
    def both(ds):
        return make_cache_key(ds) + '|' + _canonical_key(ds)
    for p in spec['files']:
        try:
            ds = xarray.open_dataset(p)
            out[p] = both(ds)
            ds.close()
        except Exception as e:
            out[p] = f'error {type(e).__name__}'
    if spec.get('mf'):
        try:
            out['__mf__'] = both(_open_mf(spec['mf'], spec['tdim']))
        except Exception as e:
            out['__mf__'] = f'error {type(e).__name__}'
    print('KEYS ' + json.dumps(out))


ENGINE = KeySim()

if __name__ == '__main__':
    _fresh_main()
