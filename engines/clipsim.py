"""
clipsim - C08 / C09: the clip pipeline writes N per-variable files into a caller-owned work_dir
and returns a lazy multi-file dataset; masks are meant to be saved, carried to another process
and applied to other datasets.  The simulator owns the storage calls (nth write fails / leaves a
partial file / the process dies there), the work_dir lifetime, process restarts, the dask
completion order (and failing tasks), and the op history (mask save/load, second dataset,
select_variables, clip of a clip, save / crash / reopen).
"""
from __future__ import annotations

import copy
import os
import shutil

import numpy

from sim import dasksched, lifetimes, observe, seams, worldgen
from . import clip_oracle, common

RESERVED = ['__coords__', 'Mesh2']


# ----------------------------------------------------------------------------------------
# geometry generation (relative to the generated world)
# ----------------------------------------------------------------------------------------

def cell_points(spec):
    """Per face: an interior-ish point (None for holes); plus bbox of everything."""
    w = worldgen.World(spec)
    c = spec['conv']
    pts = []
    if c == 'cf1d':
        for y in spec['y']['values']:
            for x in spec['x']['values']:
                pts.append((x, y))
        allx, ally = spec['x']['values'], spec['y']['values']
    elif c in ('cf2d', 'shoc_simple'):
        g = spec['corners']
        holes = set(spec['holes'])
        for j in range(spec['ny']):
            for i in range(spec['nx']):
                cs = [g[j][i], g[j][i + 1], g[j + 1][i + 1], g[j + 1][i]]
                pts.append(None if j * spec['nx'] + i in holes else (sum(p[0] for p in cs) / 4, sum(p[1] for p in cs) / 4))
        allx = [p[0] for row in g for p in row]
        ally = [p[1] for row in g for p in row]
    elif c == 'shoc_standard':
        polys = w.polygons()
        g = spec['nodes']
        for p in polys:
            pts.append(None if p is None else (sum(q[0] for q in p) / 4, sum(q[1] for q in p) / 4))
        allx = [p[0] for row in g for p in row]
        ally = [p[1] for row in g for p in row]
    else:
        for f in spec['faces']:
            ps = [spec['nodes'][n] for n in f]
            pts.append((sum(p[0] for p in ps) / len(ps), sum(p[1] for p in ps) / len(ps)))
        allx = [p[0] for p in spec['nodes']]
        ally = [p[1] for p in spec['nodes']]
    bbox = (min(allx) - 1.0, min(ally) - 1.0, max(allx) + 1.0, max(ally) + 1.0)
    return pts, bbox


def gen_geometry(rng, spec):
    pts, bbox = cell_points(spec)
    real = [p for p in pts if p is not None]
    kind = rng.choice(['box', 'box', 'all', 'point', 'line', 'triangle', 'multi', 'multi', 'multi', 'corner', 'border', 'box_centres', 'all_but_one', 'all_but_one'])
    x0, y0, x1, y1 = bbox

    def rnd(a, b):
        return round(rng.uniform(a, b), 6)
    if kind == 'all' or not real:
        return {'kind': 'all', 'wkt': f'POLYGON (({x0} {y0}, {x1} {y0}, {x1} {y1}, {x0} {y1}, {x0} {y0}))'}
    if kind == 'box':
        a, b = sorted([rnd(x0, x1), rnd(x0, x1)])
        c, d = sorted([rnd(y0, y1), rnd(y0, y1)])
        # make sure it hits something: include one cell point
        p = rng.choice(real)
        a, b = min(a, p[0]), max(b, p[0])
        c, d = min(c, p[1]), max(d, p[1])
        return {'kind': kind, 'wkt': f'POLYGON (({a} {c}, {b} {c}, {b} {d}, {a} {d}, {a} {c}))'}
    if kind == 'box_centres':
        p, q = rng.choice(real), rng.choice(real)
        a, b = sorted([p[0], q[0]])
        c, d = sorted([p[1], q[1]])
        return {'kind': kind, 'wkt': f'POLYGON (({a - 1e-3} {c - 1e-3}, {b + 1e-3} {c - 1e-3}, {b + 1e-3} {d + 1e-3}, {a - 1e-3} {d + 1e-3}, {a - 1e-3} {c - 1e-3}))'}
    if kind == 'point':
        p = rng.choice(real)
        return {'kind': kind, 'wkt': f'POINT ({p[0]} {p[1]})'}
    if kind == 'line':
        p, q = rng.choice(real), rng.choice(real)
        if p == q:
            q = (p[0] + 0.01, p[1] + 0.01)
        return {'kind': kind, 'wkt': f'LINESTRING ({p[0]} {p[1]}, {q[0]} {q[1]})'}
    if kind == 'triangle':
        p = rng.choice(real)
        r = rnd(0.05, 1.5)
        return {'kind': kind, 'wkt': f'POLYGON (({p[0] - r} {p[1] - r}, {p[0] + r} {p[1] - r}, {p[0]} {p[1] + r}, {p[0] - r} {p[1] - r}))'}
    if kind == 'all_but_one' and len(real) >= 3:
        # everything except one cell (often an interior one): a ring-like selection that drops a cell but few edges / nodes
        skip = rng.randrange(len(real))
        if rng.random() < 0.7:
            # prefer the most central cell: the one most likely to be interior (all its edges shared with kept cells)
            cx = sum(u[0] for u in real) / len(real)
            cy = sum(u[1] for u in real) / len(real)
            skip = min(range(len(real)), key=lambda k_: (real[k_][0] - cx) ** 2 + (real[k_][1] - cy) ** 2)
        parts = [u for k_, u in enumerate(real) if k_ != skip]
        r = 0.01
        return {'kind': kind, 'wkt': 'MULTIPOLYGON (' + ', '.join(
            f'(({u[0] - r} {u[1] - r}, {u[0] + r} {u[1] - r}, {u[0] + r} {u[1] + r}, {u[0] - r} {u[1] + r}, {u[0] - r} {u[1] - r}))' for u in parts) + ')'}
    if kind == 'multi':
        # several small disjoint parts: concave / scattered selections (U shapes, rings, cells one apart)
        parts = rng.sample(real, min(len(real), rng.choice([2, 2, 3, 4])))
        r = 0.01
        return {'kind': kind, 'wkt': 'MULTIPOLYGON (' + ', '.join(
            f'(({u[0] - r} {u[1] - r}, {u[0] + r} {u[1] - r}, {u[0] + r} {u[1] + r}, {u[0] - r} {u[1] + r}, {u[0] - r} {u[1] - r}))' for u in parts) + ')'}
    if kind == 'corner':
        # a point exactly on a cell vertex: touches every cell sharing it
        w = worldgen.World(spec)
        polys = w.polygons()
        if polys:
            ps = [p for p in polys if p is not None]
            if ps:
                v = rng.choice(rng.choice(ps))
                return {'kind': kind, 'wkt': f'POINT ({v[0]} {v[1]})'}
        p = rng.choice(real)
        return {'kind': 'point', 'wkt': f'POINT ({p[0]} {p[1]})'}
    # border: thin box hugging one side of the bbox
    side = rng.choice('lrtb')
    t = 1.3
    if side == 'l':
        b_ = (x0, y0, x0 + t, y1)
    elif side == 'r':
        b_ = (x1 - t, y0, x1, y1)
    elif side == 'b':
        b_ = (x0, y0, x1, y0 + t)
    else:
        b_ = (x0, y1 - t, x1, y1)
    return {'kind': 'border', 'wkt': f'POLYGON (({b_[0]} {b_[1]}, {b_[2]} {b_[1]}, {b_[2]} {b_[3]}, {b_[0]} {b_[3]}, {b_[0]} {b_[1]}))'}


def n_writes(spec):
    """Structural number of S-write crossings of one apply/clip."""
    nv = len(spec['vars'])
    c = spec['conv']
    if c == 'ugrid':
        # topology file + every data variable that is not a topology variable
        extra = 2 + (2 if spec.get('face_coords') else 0)   # node_x, node_y (+ face_x, face_y) are data variables
        return 1 + nv + extra
    n = nv + 1
    if c == 'cf1d':
        n += 2 if spec['y']['bounds'] is not None else 0
        n += 2 if spec['coords_as_vars'] else 0
    elif c in ('cf2d', 'shoc_simple'):
        n += 2 if spec['bounds'] else 0
        n += 2 if spec['coords_as_vars'] else 0
    return n


class ClipSim:
    name = 'clipsim'
    properties = ['C08', 'C09']

    def budget(self, prop, tier):
        return {'quick': {'runs': 2600, 'seconds': 60}, 'thorough': {'runs': 60000, 'seconds': 780}}[tier]

    def rule(self, prop):
        return ('plans drawn from VERIF_SEED: world (every convention; coordinates as coordinates or plain variables; meshes with '
                'any generated subset of optional connectivity, 0/1-based, fill representations; float / int / filled int variables on '
                'every grid kind with 0-2 extra dimensions in any position; in-memory, file-backed, raw or dask-chunked) x 1-3 process '
                'lifetimes of ops {make_mask, save_mask, load_mask, apply (to the original or to a second dataset with other data), '
                'one-step clip (also of a subset of the variables), load, save, drop_work (also before load), reopen, select_variables, clip of a clip, retry} x storage '
                'faults at the nth per-variable write / topology or coordinates file / open_mfdataset / dask task / read of a lazily opened variable (once or persistent), crash at those points, '
                'ack-then-crash after save, seeded dask completion and task-naming order; every input keeps a snapshot of its geometry taken through a second handle. Oracle: reference model (Space) stepped per op; selection read '
                'from the mask emsarray produced. Non-trivial = at least one clipped result was loaded or reopened and judged. Distinct = '
                'distinct (convention, materialisation, flags, per-lifetime op-kind sequence, fired faults, end kinds).')

    def real_vs_stub(self):
        return {'real': ['emsarray clip/mask/apply/select_variables/save (working tree)', 'xarray, netCDF4/HDF5, dask graph construction and task execution',
                         'file system (scratch dir), process death (fork + os._exit)'],
                'stub': ['dask thread pool -> seeded single-threaded executor deciding completion order (production default is a real thread pool)',
                         'fault wrappers at xarray.Dataset/DataArray.to_netcdf, xarray.open_mfdataset, xarray.open_dataset, emsarray.utils.netCDF4']}

    def assumptions(self, prop):
        return ['selection = what the mask emsarray produced says (mask construction is C07, not judged here)',
                'exact crop extents are not prescribed: any contiguous block containing every selected cell is accepted',
                'a data variable carries all dimensions of exactly one grid kind or none',
                'process-crash durability model; faults injected at the Python call boundary',
                'geometry clauses of C09 apply only where geometry is stored explicitly (bounds / node coordinates)']

    # -- planning ------------------------------------------------------------------------
    def gen_plan(self, rng, tier):
        big = tier == 'thorough'
        world = worldgen.gen_world(rng, max_n=6 if big else 4, max_faces=14 if big else 8, max_vars=4 if big else 3,
                                   with_time=rng.random() < 0.6)
        if rng.random() < 0.04:
            # a data variable named like one of the files the pipeline itself writes
            world['vars'][0]['name'] = '__coords__' if world['conv'] != 'ugrid' else rng.choice(['__coords__', 'Mesh2_data'])
        env = {'dask_workers': rng.choice([1, 2, 3, 4]), 'dask_order_seed': rng.randrange(1 << 20),
               # xarray's global LRU of open file handles: with a tiny cache every lazy read re-opens its file by path
               'file_cache_maxsize': rng.choice([1, 2, 128, 128])}
        env['penv'] = seams.gen_process_env(rng)
        if rng.random() < (0.02 if not big else 0.008):
            # every lifetime of this plan is the main program of a fresh interpreter: another hash seed, sometimes -O
            env['fresh'] = {'flags': rng.choice([['-O'], ['-O'], []]), 'hashseed': rng.randrange(1, 100000)}
        nw = n_writes(world)
        lts = []
        masks, results = [], []
        counters = {'work': 0, 'mask': 0, 'res': 0, 'out': 0}
        saved_masks = []     # paths on disk
        saved_outs = []      # (path, res lineage)

        def fresh(kind):
            counters[kind] += 1
            return f'{kind}{counters[kind] - 1}'

        def fault_for(opname):
            if rng.random() > 0.3:
                return []
            if opname in ('apply', 'clip', 'reclip'):
                seam = rng.choice(['write', 'write', 'write', 'mfopen', 'read', 'read'])
                if world['materialise'] != 'memory' and rng.random() < 0.35:
                    seam = 'read'
                if seam == 'read':
                    # the source is read while it is clipped: a lazily opened file (each variable, each connectivity table)
                    # or dask chunks; in-memory worlds never cross this seam
                    if world['materialise'] in ('chunked', 'chunked_auto') and rng.random() < 0.5:
                        return [{'seam': 'dask', 'nth': rng.choice([1, 1, 2, 3, 5]), 'kind': rng.choice(['EIO', 'EIO', 'crash'])}]
                    f = {'seam': 'read', 'nth': rng.choice([1, 1, 2, 3, 4, 6, 9]), 'kind': rng.choice(['EIO', 'EIO', 'crash'])}
                    if rng.random() < 0.3:
                        f['persistent'] = True
                    return [f]
                if seam == 'write':
                    nth = rng.choice([1, nw, rng.randint(1, max(1, nw)), 2])
                    f = {'seam': 'write', 'nth': nth, 'kind': rng.choice(['ENOSPC', 'EIO', 'partial', 'crash', 'crash_after'])}
                    if f['kind'] in ('ENOSPC', 'EIO') and rng.random() < 0.3:
                        f['persistent'] = True
                    return [f]
                return [{'seam': 'mfopen', 'nth': 1, 'kind': rng.choice(['EIO', 'EMFILE', 'crash'])}]
            if opname in ('load',):
                return [{'seam': 'dask', 'nth': rng.choice([1, 2, 3, 5, 8]), 'kind': rng.choice(['EIO', 'EIO', 'crash'])}]
            if opname == 'save':
                seam = rng.choice(['dask', 'write', 'ncfix.open'])
                if seam == 'dask':
                    return [{'seam': 'dask', 'nth': rng.choice([1, 2, 3, 5, 8]), 'kind': rng.choice(['EIO', 'crash'])}]
                if seam == 'write':
                    return [{'seam': 'write', 'nth': 1, 'kind': rng.choice(['ENOSPC', 'partial', 'crash_after', 'crash'])}]
                return [{'seam': 'ncfix.open', 'nth': 1, 'kind': rng.choice(['EACCES', 'crash'])}]
            if opname == 'save_mask':
                return [{'seam': 'write', 'nth': 1, 'kind': rng.choice(['ENOSPC', 'partial', 'crash'])}]
            return []

        n_lt = rng.choice([1, 1, 2, 2, 3])
        used_works = []      # (lifetime, name) of work dirs of earlier lifetimes
        for li in range(n_lt):
            ops = []
            new_works = []
            live_masks, live_res = [], []
            n_ops = rng.randint(2, 6 if not big else 8)
            # later lifetimes start from what is on disk
            if li > 0 and saved_masks and rng.random() < 0.7:
                m = fresh('mask')
                ops.append({'op': 'load_mask', 'path': rng.choice(saved_masks), 'mask': m})
                live_masks.append(m)
                if rng.random() < 0.8:
                    # the documented use of a saved mask: another process applies it to another dataset with the same geometry
                    r, wk = fresh('res'), fresh('work')
                    ops.append({'op': 'apply', 'mask': m, 'variant': rng.choice([1, 1, 0]), 'work': wk, 'res': r, 'faults': []})
                    ops.append({'op': 'load', 'res': r, 'faults': []})
                    live_res.append(r)
            if li > 0 and saved_outs and rng.random() < 0.6:
                r = fresh('res')
                ops.append({'op': 'reopen', 'path': rng.choice(saved_outs), 'res': r})
                live_res.append(r)
            while len(ops) < n_ops:
                choices = ['clip', 'make_mask', 'make_mask'] if not live_res else ['clip', 'make_mask']
                if live_masks:
                    choices += ['apply', 'apply', 'apply', 'save_mask', 'save_mask']
                if live_res:
                    choices += ['load', 'load', 'load', 'save', 'save', 'save', 'reclip', 'select_res', 'drop_work_early']
                if rng.random() < 0.25:
                    choices += ['select_world']
                kind = rng.choice(choices)
                if kind == 'make_mask':
                    m = fresh('mask')
                    ops.append({'op': 'make_mask', 'geom': gen_geometry(rng, world), 'buffer': rng.choice([0, 0, 1, 1, 2, 3]), 'mask': m})
                    live_masks.append(m)
                elif kind == 'save_mask':
                    p = f'{fresh("mask")}.nc'
                    ops.append({'op': 'save_mask', 'mask': rng.choice(live_masks), 'path': p, 'faults': fault_for('save_mask')})
                    if not ops[-1]['faults']:
                        saved_masks.append(p)
                elif kind in ('apply', 'clip'):
                    r, wk = fresh('res'), fresh('work')
                    op = {'op': kind, 'variant': rng.choice([0, 0, 1]), 'work': wk, 'res': r, 'faults': fault_for(kind)}
                    if kind == 'apply':
                        op['mask'] = rng.choice(live_masks)
                    else:
                        op['geom'] = gen_geometry(rng, world)
                        op['buffer'] = rng.choice([0, 0, 1, 2])
                    ops.append(op)
                    names_ = [v['name'] for v in world['vars']]
                    if len(names_) >= 2 and rng.random() < 0.2:
                        # the caller clips only some of the variables (e.g. one variable of next month's file)
                        op['only_vars'] = sorted(rng.sample(names_, rng.randint(1, len(names_) - 1)))
                    if li > 0 and used_works and rng.random() < 0.3:
                        # the caller's scratch directory from an earlier process, with whatever that run left behind
                        op['work_reuse'] = rng.choice(used_works)
                    if op['faults']:
                        r2, wk2 = fresh('res'), fresh('work')
                        retry = dict(op, res=r2, work=wk2, faults=[], retry=True)
                        if rng.random() < 0.4:
                            retry['work_reuse_same_lifetime'] = op['work']   # retry into the directory of the failed attempt
                        ops.append(retry)
                        live_res.append(r2)
                        new_works.append(wk2)
                    else:
                        live_res.append(r)
                    new_works.append(wk)
                    if rng.random() < 0.45:
                        ops.append({'op': 'load', 'res': live_res[-1], 'faults': []})
                elif kind == 'load':
                    ops.append({'op': 'load', 'res': rng.choice(live_res), 'faults': fault_for('load')})
                    if ops[-1]['faults']:
                        ops.append({'op': 'load', 'res': ops[-1]['res'], 'faults': [], 'retry': True})
                elif kind == 'save':
                    p = f'{fresh("out")}.nc'
                    op = {'op': 'save', 'res': rng.choice(live_res), 'path': p, 'via': rng.choice(['ems', 'ems', 'xarray']), 'faults': fault_for('save')}
                    ops.append(op)
                    if op['faults']:
                        p2 = f'{fresh("out")}.nc'
                        ops.append(dict(op, path=p2, faults=[], retry=True))
                        saved_outs.append(p2)
                    else:
                        saved_outs.append(p)
                elif kind == 'reclip':
                    r, wk = fresh('res'), fresh('work')
                    ops.append({'op': 'reclip', 'src': rng.choice(live_res), 'geom': gen_geometry(rng, world), 'buffer': rng.choice([0, 0, 1]),
                                'work': wk, 'res': r, 'faults': fault_for('reclip')})
                    if not ops[-1]['faults']:
                        live_res.append(r)
                elif kind == 'drop_work_early':
                    ops.append({'op': 'drop_work', 'res': rng.choice(live_res)})
                elif kind in ('select_res', 'select_world'):
                    names = [v['name'] for v in world['vars']]
                    sub = rng.sample(names, rng.randint(0, len(names)))
                    ops.append({'op': 'select_variables', 'src': rng.choice(live_res) if kind == 'select_res' else None, 'names': sub,
                                'variant': 0})
            end = 'crash_after_ack' if (ops and ops[-1]['op'] in ('save', 'save_mask') and rng.random() < 0.5) else 'exit'
            lts.append({'ops': ops, 'end': end})
            used_works += [[li, w_] for w_ in new_works]
        if env.get('fresh') and len(lts) > 2:
            env.pop('fresh')      # fresh interpreters are slow to start: short histories only
        return {'engine': self.name, 'world': world, 'env': env, 'lifetimes': lts}

    def shrink(self, plan):
        env_ = plan.get('env') or {}
        if env_.get('fresh'):
            p = copy.deepcopy(plan)
            p['env'].pop('fresh')
            yield p
            if env_['fresh']['flags']:
                p = copy.deepcopy(plan)
                p['env']['fresh']['flags'] = []
                yield p
        for key_, off_ in (('logging_debug', False), ('tmpdir_other_fs', False), ('keep_attrs', 'default')):
            if (env_.get('penv') or {}).get(key_, off_) != off_:
                p = copy.deepcopy(plan)
                p['env']['penv'][key_] = off_
                yield p
        if len(plan['lifetimes']) > 1:
            for k in reversed(range(len(plan['lifetimes']))):
                p = copy.deepcopy(plan)
                del p['lifetimes'][k]
                yield p
        for li, lt in enumerate(plan['lifetimes']):
            for k in reversed(range(len(lt['ops']))):
                p = copy.deepcopy(plan)
                del p['lifetimes'][li]['ops'][k]
                yield p
            for k, op in enumerate(lt['ops']):
                for fi in range(len(op.get('faults') or [])):
                    p = copy.deepcopy(plan)
                    del p['lifetimes'][li]['ops'][k]['faults'][fi]
                    yield p
                if op.get('buffer'):
                    p = copy.deepcopy(plan)
                    p['lifetimes'][li]['ops'][k]['buffer'] = 0
                    yield p
                if op.get('variant'):
                    p = copy.deepcopy(plan)
                    p['lifetimes'][li]['ops'][k]['variant'] = 0
                    yield p
                if op.get('geom') and op['geom']['kind'] != 'all':
                    p = copy.deepcopy(plan)
                    p['lifetimes'][li]['ops'][k]['geom'] = gen_all(plan['world'])
                    yield p
            if lt['end'] != 'exit':
                p = copy.deepcopy(plan)
                p['lifetimes'][li]['end'] = 'exit'
                yield p
        if plan['env']['dask_workers'] != 1:
            p = copy.deepcopy(plan)
            p['env']['dask_workers'] = 1
            yield p
        if plan['env'].get('file_cache_maxsize', 128) != 128:
            p = copy.deepcopy(plan)
            p['env']['file_cache_maxsize'] = 128
            yield p
        yield from common.shrink_world_in_plan(plan)
        w = plan['world']
        for dim in ('ny', 'nx'):
            if w.get(dim, 0) > 1 and w['conv'] in ('cf2d', 'shoc_simple', 'shoc_standard') and not w.get('holes') and not w.get('nan_nodes'):
                p = copy.deepcopy(plan)
                pw = p['world']
                pw[dim] -= 1
                key = 'corners' if 'corners' in pw else 'nodes'
                if dim == 'ny':
                    pw[key] = pw[key][:-1]
                else:
                    pw[key] = [row[:-1] for row in pw[key]]
                yield p

    def predicate(self, pred, plan, v):
        w = plan['world']
        if pred == 'ugrid_face_edge_or_edge_face':
            return w['conv'] == 'ugrid' and any(t in w.get('tables', []) for t in ('face_edge', 'edge_face'))
        if pred == 'cf_coords_as_vars':
            return w['conv'] in ('cf1d', 'cf2d', 'shoc_simple') and bool(w.get('coords_as_vars'))
        if pred == 'raw_fill_attr':
            return any(x['fill'] for x in w['vars']) and w['materialise'] in ('memory', 'file_raw')
        return True

    # -- execution -----------------------------------------------------------------------
    def run(self, plan, scratch, out):
        world = worldgen.World(plan['world'])
        spaces = {}      # result slot -> (Space, variant) once judged
        model = {'masks': {}, 'res': {}, 'files': {}, 'mask_files': {}}
        judged = {'C08': False, 'C09': False}
        sig_lts = []
        for li, lt in enumerate(plan['lifetimes']):
            fresh = (plan.get('env') or {}).get('fresh')
            if fresh:
                res = lifetimes.run_lifetime_fresh('engines.clipsim', '_clip_lifetime', (plan, li, scratch, sorted(model['files'])), scratch,
                                                   flags=fresh['flags'], env={'PYTHONHASHSEED': str(fresh['hashseed'])}, timeout=240)
                out.stats['probe.lifetime_in_fresh_interpreter' + ('_optimised' if '-O' in fresh['flags'] else '')] += 1
            else:
                res = lifetimes.run_lifetime(_clip_lifetime, plan, li, scratch, sorted(model['files']), timeout=180)
            if res['status'] in ('harness_error', 'timeout'):
                out.harness_error = f'lifetime {li}: {res["error"]}'
                return
            done, raised, fired_by_op = {}, {}, {}
            for kind, payload in res['events']:
                out.event(kind, lt=li, **payload)
                if kind == 'op_done':
                    done[payload['k']] = payload
                elif kind == 'op_raised':
                    raised[payload['k']] = payload
                elif kind == 'fault_fired':
                    out.stats[f"fault.{payload['seam']}.{payload['kind']}"] += 1
                elif kind == 'probe':
                    out.stats[f'probe.{payload["name"]}'] += 1
                elif kind == 'input_mutated':
                    out.violate('C09', 'input-geometry-mutated', None,
                                f"after {payload['op']} (op {payload['k']}) the input dataset's own geometry variables {payload['names']} "
                                f"no longer hold the values they came with: every dataset derived from it from now on has another geometry")
                elif kind == 'dask':
                    out.stats['dask_tasks'] += payload['executed']
                    out.stats['dask_reordered'] += payload['reordered']
                    out.stats['dask_graphs'] += payload.get('graphs', 0)
                    out.stats['dask_graphs_completed_in_non_fifo_order'] += payload.get('graphs_non_fifo', 0)
            out.event('lifetime_end', lt=li, status=res['status'])
            out.stats[f'end.{res["status"]}'] += 1
            # lifetime boundary: in-memory slots die, files stay
            if li > 0:
                out.stats['probe.restart'] += 1
            model['masks'], model['res'] = {}, {}
            sig_ops = []
            for k, op in enumerate(lt['ops']):
                d = done.get(k)
                fired = d['fired'] if d else []
                if d is None:
                    # crashed before this op finished (or skipped); nothing acknowledged
                    sig_ops.append((op['op'], 'not-run'))
                    continue
                obs = res['obs'].get(f'op{k}', {})
                acked = d['acked']
                sig_ops.append((op['op'], tuple((f['seam'], f['kind']) for f in fired), acked))
                out.stats[f'op.{op["op"]}'] += 1
                if d.get('skipped'):
                    continue
                if not acked:
                    r = raised.get(k)
                    if r and not fired and not d.get('tolerated'):
                        self._raised(out, world, op, r, res['obs'].get(f'msg{k}'), model)
                    continue
                if fired:
                    out.stats['probe.acked_despite_fault'] += 1
                if op.get('retry'):
                    out.stats['probe.retry_acked'] += 1
                self._step(out, world, plan, op, obs, model, judged, li)
            sig_lts.append((tuple(sig_ops), lt['end'], res['status']))
        w = plan['world']
        flags = (w.get('coords_as_vars'), bool(w.get('holes') or w.get('nan_nodes')), tuple(w.get('tables') or ()), w.get('start_index'), w.get('fill_repr'))
        out.signature = (world.conv, w['materialise'], flags, tuple(sig_lts))
        out.nontrivial = dict(judged)
        out.stats['runs'] += 1
        out.stats[f'conv.{world.conv}'] += 1
        out.stats[f'mat.{w["materialise"]}'] += 1

    def _raised(self, out, world, op, r, msg, model):
        """A fault-free op raised."""
        name = op['op']
        detail = f"fault-free {name} raised {r['exc']}: {msg}"
        if name == 'reclip' and (model['res'].get(op['src']) is None or r.get('work_dropped')):
            # the source is not an acknowledged result (e.g. a file left behind by a save that failed), or its
            # work_dir was deleted before it was used: nothing is promised
            out.stats['probe.reclip_of_unusable_source'] += 1
            return
        if name in ('load', 'save') and model['res'].get(op['res']) is None:
            return
        if name in ('apply', 'clip', 'reclip'):
            # an empty selection may raise (the clauses are vacuous)
            if r.get('empty_selection'):
                out.stats['probe.empty_selection_raised'] += 1
                return
            if (name == 'reclip' and r['exc'] == 'ValueError' and str(msg).startswith("Times can't be serialized faithfully")
                    and any(v['dtype'] in ('dt', 'td') for v in world.spec['vars'])):
                # upstream limit, reproduced without emsarray: xarray's lazy datetime encoder refuses an all-NaT dask
                # array with an integer on-disk type (the kept cells of this second clip were all blank after the first)
                out.stats['probe.xarray_all_nat_datetime_not_encodable'] += 1
                return
            out.violate('C08', 'clip-raised', r['frame'], detail)
            out.violate('C09', 'clip-raised', r['frame'], detail)
        elif name == 'load':
            if r.get('work_dropped'):
                out.stats['probe.load_after_drop_work_raised'] += 1
                return
            out.violate('C08', 'load-raised', r['frame'], detail)
        elif name == 'save':
            if r.get('work_dropped'):
                out.stats['probe.load_after_drop_work_raised'] += 1
                return
            out.violate('C09', 'save-raised', r['frame'], detail)
        elif name in ('reopen',):
            out.violate('C09', 'reopen-raised', r['frame'], detail)
        elif name in ('select_variables',):
            if op.get('src') is not None and (model['res'].get(op['src']) is None or r.get('work_dropped')):
                return
            out.violate('C09', 'select-raised', r['frame'], detail)
        elif name in ('make_mask', 'save_mask', 'load_mask'):
            # mask construction is C07's business; saving/loading a mask is plain xarray
            out.stats[f'probe.{name}_raised'] += 1

    def _space_for(self, world, variant):
        return clip_oracle.Space.from_world(world, variant)

    def _step(self, out, world, plan, op, obs, model, judged, li):
        name = op['op']
        if name in ('make_mask', 'load_mask'):
            model['masks'][op['mask']] = obs.get('sel')
            if name == 'load_mask' and li > 0:
                out.stats['probe.mask_reloaded_in_later_lifetime'] += 1
        elif name == 'save_mask':
            pass
        elif name in ('apply', 'clip'):
            mask_obs = obs.get('sel') if name == 'clip' else model['masks'].get(op['mask'])
            model['res'][op['res']] = {'kind': 'clip', 'variant': op['variant'], 'mask_obs': mask_obs, 'parent': None,
                                       'only_vars': op.get('only_vars'), 'pre': obs.get('pre'), 'work_dropped': False, 'space': None, 'input_space': None}
            if obs.get('ds_after_fault') is not None:
                out.stats['probe.result_returned_despite_fault_judged'] += 1
                self._judge_result(out, world, model['res'][op['res']], obs['ds_after_fault'], f'{op["res"]} (returned although a fault was injected)', judged,
                                   raw=obs.get('raw_after_fault'))
            elif obs.get('ds_after_fault_error') is not None:
                e = obs['ds_after_fault_error']
                out.violate('C08', 'result-after-fault-unloadable', e.get('frame'),
                            f'{name} reported success although a fault was injected, but its result cannot be loaded: {e["exc"]}: {e["msg"]}')
            if op['variant'] == 1:
                out.stats['probe.second_dataset_clipped'] += 1
            if name == 'apply' and op['variant'] == 1:
                out.stats['probe.mask_applied_to_second_dataset'] += 1
        elif name == 'reclip':
            src = model['res'].get(op['src'])
            if src is None:
                return
            # the source was observed (loaded) by the op itself: judge it to obtain its Space
            self._judge_result(out, world, src, obs.get('src'), f'{op["src"]} (source of reclip)', judged)
            model['res'][op['res']] = {'kind': 'reclip', 'variant': src['variant'], 'mask_obs': obs.get('sel'), 'parent': src,
                                       'pre': obs.get('src'), 'work_dropped': False, 'space': None, 'input_space': src.get('space')}
            out.stats['probe.clip_of_a_clip'] += 1
        elif name == 'load':
            r = model['res'].get(op['res'])
            if r is None:
                return
            if r['work_dropped']:
                out.stats['probe.load_after_drop_work_returned'] += 1
            self._judge_result(out, world, r, obs.get('ds'), f'{op["res"]} (loaded)', judged)
        elif name == 'save':
            r = model['res'].get(op['res'])
            if r is not None:
                model['files'][op['path']] = r
        elif name == 'drop_work':
            r = model['res'].get(op['res'])
            if r is not None:
                r['work_dropped'] = True
                out.stats['probe.work_dir_dropped_before_use'] += 1
        elif name == 'reopen':
            r = model['files'].get(op['path'])
            if r is None:
                return
            out.stats['probe.saved_result_reopened'] += 1
            if li > 0:
                out.stats['probe.reopened_in_later_lifetime'] += 1
            model['res'][op['res']] = r
            self._judge_result(out, world, r, obs.get('ds'), f'{op["path"]} (reopened)', judged, raw=obs.get('raw'))
        elif name == 'select_variables':
            self._judge_select(out, world, op, obs, model, judged)

    def _judge_result(self, out, world, r, ds_obs, label, judged, raw=None):
        if ds_obs is None:
            return
        if r.get('kind') == 'select':
            return
        if r['kind'] == 'clip':
            space = self._space_for(world, r['variant'])
            if r.get('only_vars') is not None:
                space.vars = {n: v for n, v in space.vars.items() if n in r['only_vars']}
        else:
            space = r.get('input_space')
            if space is None:
                return      # the source itself failed its own check; nothing further can be attributed
        try:
            sel = clip_oracle.selection_from_mask(space, r['mask_obs']) if r['mask_obs'] else None
        except ValueError as e:
            out.stats['probe.mask_unusable'] += 1
            return
        if sel is None:
            return
        c08, c09, new = clip_oracle.judge_clip(space, sel, ds_obs, label=label)
        if r['kind'] == 'clip' and r.get('pre'):
            c08 += clip_oracle.judge_passthrough(space, r['pre'], ds_obs, label, new)
        want_cls = worldgen.CONV_CLASS[world.conv]
        conv = ds_obs.get('convention')
        if isinstance(conv, dict):
            c09.append(('convention-raises', f'{label}: convention detection raises {conv["error"]["exc"]}', conv['error'].get('frame')))
        elif conv != want_cls:
            c09.append(('convention', f'{label}: result is recognised as {conv!r}, input was {want_cls}'))
        if raw and world.conv == 'ugrid' and world.spec['fill_repr'] != 'nan':
            want_dtype = str(worldgen._np_dtype(world.spec['conn_dtype']))
            for t in ['face_node'] + list(world.spec['tables']):
                nm = world.CONN_NAMES[t]
                if nm in raw and raw[nm]['dtype'] != want_dtype:
                    c09.append(('connectivity-dtype', f'{label}: {nm} is stored as {raw[nm]["dtype"]}, input type was {want_dtype}'))
                    break
        judged['C08'] = judged['C09'] = True
        out.stats['results_judged'] += 1
        r['space'] = new
        seen = set()
        for item in c08:
            if item[0] not in seen:
                seen.add(item[0])
                out.violate('C08', item[0], item[2] if len(item) > 2 else None, item[1])
        seen = set()
        for item in c09:
            if item[0] not in seen:
                seen.add(item[0])
                out.violate('C09', item[0], item[2] if len(item) > 2 else None, item[1])

    def _judge_select(self, out, world, op, obs, model, judged):
        ds_obs, src_obs = obs.get('ds'), obs.get('src')
        if ds_obs is None or src_obs is None:
            return
        judged['C09'] = True
        out.stats['probe.select_variables_judged'] += 1
        label = f'select_variables({op["names"]})'
        names = set(op['names'])
        data_names = {v['name'] for v in world.spec['vars']}
        kept = set(ds_obs['vars'])
        for n in data_names:
            if n in names and n in src_obs['vars'] and n not in kept:
                out.violate('C09', 'select-lost-requested', None, f'{label}: requested variable {n} is missing')
                return
            if n not in names and n in kept:
                out.violate('C09', 'select-kept-unrequested', None, f'{label}: variable {n} was not requested but is present')
                return
        for n in world.geometry_names():
            if n in src_obs['vars'] and n not in kept:
                out.violate('C09', 'select-lost-geometry', None, f'{label}: geometry variable {n} was dropped')
                return
            if n in src_obs['vars'] and not common.arrays_equal_nan(
                    common.decode_missing(ds_obs['vars'][n]['values'], {}), common.decode_missing(src_obs['vars'][n]['values'], {})):
                out.violate('C09', 'select-geometry-changed', None, f'{label}: geometry variable {n} changed')
                return
        t = world.spec.get('time')
        if t and t['name'] in src_obs['vars'] and t['name'] not in kept:
            out.violate('C09', 'select-lost-time', None, f'{label}: time coordinate was dropped')
        sp, dp = src_obs.get('polygons'), ds_obs.get('polygons')
        if isinstance(dp, dict) and not isinstance(sp, dict):
            out.violate('C09', 'select-polygons-raise', dp['error'].get('frame'), f'{label}: polygons raise {dp["error"]["exc"]}: {dp["error"]["msg"]}')
        elif not isinstance(sp, dict) and sp != dp:
            out.violate('C09', 'select-polygons-changed', None, f'{label}: polygons differ from the input polygons')
        conv = ds_obs.get('convention')
        if conv != src_obs.get('convention'):
            out.violate('C09', 'select-convention', None, f'{label}: convention {conv!r}, input {src_obs.get("convention")!r}')


def gen_all(spec):
    pts, bbox = cell_points(spec)
    x0, y0, x1, y1 = bbox
    return {'kind': 'all', 'wkt': f'POLYGON (({x0} {y0}, {x1} {y0}, {x1} {y1}, {x0} {y1}, {x0} {y0}))'}


# ----------------------------------------------------------------------------------------
# lifetime body
# ----------------------------------------------------------------------------------------

def observe_mask(mask):
    out = {'vars': {}, 'coords': [str(c) for c in mask.coords], 'attrs': observe.canon_attrs(mask.attrs)}
    for name, var in mask.variables.items():
        enc = {}
        for k in ('dtype', '_FillValue'):
            if k in var.encoding:
                enc[k] = str(var.encoding[k]) if k == 'dtype' else observe._canon_attr(var.encoding[k])
        out['vars'][str(name)] = {'dims': [str(d) for d in var.dims], 'values': numpy.asarray(var.values),
                                  'attrs': observe.canon_attrs(var.attrs), 'encoding': enc}
    return out


def _selection_empty(mask_obs):
    try:
        for name, v in mask_obs['vars'].items():
            if name in mask_obs['coords']:
                continue
            vals = numpy.asarray(v['values'])
            if vals.dtype.kind == 'b' and vals.any():
                return False
            if vals.dtype.kind == 'f' and (~numpy.isnan(vals)).any():
                return False
            if vals.dtype.kind in 'iu':
                return False
        return True
    except Exception:
        return False


def _raw_file_info(path):
    import netCDF4
    info = {}
    nc = netCDF4.Dataset(path, 'r')
    try:
        for name, var in nc.variables.items():
            info[name] = {'dtype': str(var.dtype), 'dims': list(var.dimensions), 'ncattrs': sorted(var.ncattrs())}
    finally:
        nc.close()
    return info


def _clip_lifetime(ctx, plan, li, scratch, acked_files=()):
    import shapely
    import xarray

    import emsarray
    env = plan['env']
    ctl = seams.FaultController(ctx)
    raw = seams.install_xarray_seams(ctl)
    seams.install_ncfix_seam(ctl)
    sched = dasksched.install(ctl, env['dask_order_seed'] * 7 + li, env['dask_workers'])
    xarray.set_options(file_cache_maxsize=env.get('file_cache_maxsize', 128))
    seams.apply_process_env(env.get('penv'), ctx, scratch)
    world = worldgen.World(plan['world'])
    lt = plan['lifetimes'][li]
    masks, results, work_of, dropped = {}, {}, {}, set()
    datasets = {}

    geom_base = {}
    reported_mutation = False

    def dataset(variant):
        if variant not in datasets:
            datasets[variant] = common.open_world(world, scratch, variant, raw={'to_netcdf': raw['to_netcdf'], 'open_dataset': raw['open_dataset']},
                                                  tag='input')
            # the geometry as the dataset came: a private copy read through a second, independent handle, so that the
            # dataset under test stays exactly as lazy as it was opened (nothing of it is in memory before emsarray asks)
            ds_ = datasets[variant]
            if world.spec.get('materialise', 'memory') == 'memory':
                ref_ = ds_
            else:
                ref_ = common.open_world(world, scratch, variant, raw={'to_netcdf': raw['to_netcdf'], 'open_dataset': raw['open_dataset']}, tag='input')
            geom_base[variant] = {n: observe.observe_variable(ref_.variables[n]) for n in world.geometry_names() if n in ref_.variables}
            for n, ov_ in geom_base[variant].items():
                ov_['values'] = numpy.array(ov_['values'], copy=True)
        return datasets[variant]

    def _in_memory_values(var):
        """The values a variable holds in memory, without making it read anything."""
        from xarray.core import indexing
        d = var._data
        if isinstance(d, numpy.ndarray):
            return d
        if isinstance(d, indexing.MemoryCachedArray) and isinstance(d.array, indexing.NumpyIndexingAdapter):
            return numpy.asarray(d.array.array)
        return None

    def mutated_inputs():
        bad = []
        for variant, base in geom_base.items():
            ds_ = datasets[variant]
            for n, ov_ in base.items():
                if n not in ds_.variables:
                    bad.append(n)
                    continue
                now = _in_memory_values(ds_.variables[n])
                if now is None:
                    continue      # still on disk: cannot have been altered
                if now.shape != ov_['values'].shape or not common.arrays_equal_nan(now, ov_['values']):
                    bad.append(n)
        return sorted(set(bad))

    def workdir(name, op=None):
        if op is not None and op.get('work_reuse'):
            p = os.path.join(scratch, f"lt{op['work_reuse'][0]}-{op['work_reuse'][1]}")
            if os.path.isdir(p) and p not in work_of.values():
                ctx.emit('probe', name='work_dir_of_earlier_lifetime_reused')
                import gc
                gc.collect()      # see below: a failed attempt in this directory may have left unreachable open handles
                return p
        if op is not None and op.get('work_reuse_same_lifetime'):
            p = os.path.join(scratch, f"lt{li}-{op['work_reuse_same_lifetime']}")
            # only the directory of an attempt that *failed*: a live lazy result still reads (and holds open) its files
            if os.path.isdir(p) and p not in work_of.values():
                ctx.emit('probe', name='retry_into_work_dir_of_failed_attempt')
                # the failed call is over and the caller holds nothing of it: whatever it had opened (work files it
                # was reading when the fault hit) is unreachable and goes away with a collection
                import gc
                gc.collect()
                return p
        p = os.path.join(scratch, f'lt{li}-{name}')
        os.makedirs(p, exist_ok=True)
        return p

    def geom_of(op):
        return shapely.from_wkt(op['geom']['wkt'])

    for k, op in enumerate(lt['ops']):
        name = op['op']
        obs = {}
        missing = None
        for slot, store in (('mask', masks), ('res', None), ('src', results)):
            pass
        if name in ('apply', 'save_mask') and op['mask'] not in masks:
            missing = 'mask'
        if name in ('load', 'save', 'drop_work') and op['res'] not in results:
            missing = 'res'
        if name == 'reclip' and op['src'] not in results:
            missing = 'src'
        if name == 'select_variables' and op['src'] is not None and op['src'] not in results:
            missing = 'src'
        if name in ('load_mask', 'reopen') and not os.path.exists(os.path.join(scratch, op['path'])):
            missing = 'file'
        if name == 'reopen' and op['path'] not in acked_files:
            missing = 'file'      # left behind by a save that failed or crashed: nothing was acknowledged
        if missing:
            ctx.emit('op_done', k=k, op=name, acked=False, skipped=True, fired=[])
            continue
        ctx.emit('op', k=k, op=name)
        acked = False
        tolerated = False
        extra = {}
        try:
            if name == 'make_mask':
                ctl.begin_op(name, [])
                mask = dataset(0).ems.make_clip_mask(geom_of(op), buffer=op['buffer'])
                masks[op['mask']] = mask
                obs['sel'] = observe_mask(mask)
            elif name == 'save_mask':
                ctl.begin_op(name, op.get('faults'))
                masks[op['mask']].to_netcdf(os.path.join(scratch, op['path']))
            elif name == 'load_mask':
                ctl.begin_op(name, [])
                mask = raw['open_dataset'](os.path.join(scratch, op['path']))
                masks[op['mask']] = mask
                obs['sel'] = observe_mask(mask)
            elif name in ('apply', 'clip'):
                ds = dataset(op['variant'])
                if op.get('only_vars') is not None:
                    ds = ds.drop_vars([v['name'] for v in world.spec['vars'] if v['name'] not in op['only_vars']])
                    ctx.emit('probe', name='subset_of_variables_clipped')
                obs['pre'] = observe.observe_dataset(ds, convention=False)
                for n_, ov_ in geom_base[op['variant']].items():
                    if n_ in obs['pre']['vars']:
                        obs['pre']['vars'][n_] = ov_      # judged against the geometry as it came, not as it is by now
                if name == 'clip':
                    try:
                        obs['sel'] = observe_mask(ds.ems.make_clip_mask(geom_of(op), buffer=op['buffer']))
                    except Exception:
                        obs['sel'] = None
                    extra['empty_selection'] = bool(obs['sel']) and _selection_empty(obs['sel'])
                else:
                    extra['empty_selection'] = _selection_empty(observe_mask(masks[op['mask']]))
                wd = workdir(op['work'], op)
                ctl.begin_op(name, op.get('faults'))
                if name == 'clip':
                    res = ds.ems.clip(geom_of(op), wd, buffer=op['buffer'])
                else:
                    res = ds.ems.apply_clip_mask(masks[op['mask']], wd)
                results[op['res']] = res
                work_of[op['res']] = wd
            elif name == 'reclip':
                src = results[op['src']]
                extra['work_dropped'] = op['src'] in dropped
                obs['src'] = observe.observe_dataset(src, polygons=True)
                if isinstance(obs['src'].get('polygons'), dict) and not world.explicit_geometry():
                    # e.g. a 1xN CF grid without bounds: emsarray cannot derive cell edges from a single
                    # coordinate value; such a dataset cannot be clipped again (C06's domain, not a clip defect)
                    ctx.observe(f'op{k}', obs)
                    ctx.emit('op_done', k=k, op=name, acked=False, skipped=True, fired=[])
                    ctx.emit('probe', name='reclip_skipped_degenerate_axis')
                    continue
                mask2 = src.ems.make_clip_mask(geom_of(op), buffer=op['buffer'])
                obs['sel'] = observe_mask(mask2)
                extra['empty_selection'] = _selection_empty(obs['sel'])
                wd = workdir(op['work'])
                ctl.begin_op(name, op.get('faults'))
                res = src.ems.apply_clip_mask(mask2, wd)
                results[op['res']] = res
                work_of[op['res']] = wd
            elif name == 'load':
                extra['work_dropped'] = op['res'] in dropped
                ctl.begin_op(name, op.get('faults'))
                before = (sched.executed, sched.reordered, sched.graphs, sched.graphs_reordered)
                obs['ds'] = observe.observe_dataset(results[op['res']], polygons=True)
                ctx.emit('dask', executed=sched.executed - before[0], reordered=sched.reordered - before[1],
                         graphs=sched.graphs - before[2], graphs_non_fifo=sched.graphs_reordered - before[3])
            elif name == 'save':
                extra['work_dropped'] = op['res'] in dropped
                ctl.begin_op(name, op.get('faults'))
                before = (sched.executed, sched.reordered)
                path = os.path.join(scratch, op['path'])
                # plain xarray adds a default _FillValue=NaN, which xarray itself then refuses to re-encode next to a
                # missing_value attribute (an xarray limitation, not emsarray's): such worlds are saved the emsarray way
                via = op['via']
                if any(v['fill'] == 'missing_value' for v in plan['world']['vars']):
                    via = 'ems'
                if via == 'ems':
                    results[op['res']].ems.to_netcdf(path)
                else:
                    results[op['res']].to_netcdf(path)
                ctx.emit('dask', executed=sched.executed - before[0], reordered=sched.reordered - before[1])
            elif name == 'drop_work':
                ctl.begin_op(name, [])
                wd = work_of.get(op['res'])
                if wd and os.path.isdir(wd):
                    shutil.rmtree(wd)
                    dropped.add(op['res'])
            elif name == 'reopen':
                ctl.begin_op(name, [])
                path = os.path.join(scratch, op['path'])
                ds = raw['open_dataset'](path)
                results[op['res']] = ds
                obs['ds'] = observe.observe_dataset(ds, polygons=True)
                obs['raw'] = _raw_file_info(path)
            elif name == 'select_variables':
                ctl.begin_op(name, [])
                src = dataset(op['variant']) if op['src'] is None else results[op['src']]
                extra['work_dropped'] = op['src'] in dropped
                obs['src'] = observe.observe_dataset(src, polygons=True)
                sub = src.ems.select_variables([n_ for n_ in op['names'] if n_ in src.variables])
                obs['ds'] = observe.observe_dataset(sub, polygons=True)
            acked = True
        except Exception as e:
            info = observe.exc_info(e)
            ctx.emit('op_raised', k=k, op=name, exc=info['exc'], frame=info['frame'], injected=info['injected'], **extra)
            ctx.observe(f'msg{k}', info['msg'])
        fired, unfired, counts = ctl.end_op()
        if acked and fired and name in ('apply', 'clip', 'reclip'):
            # the call reported success although a fault was injected into it: what it returned is judged strictly
            try:
                obs['ds_after_fault'] = observe.observe_dataset(results[op['res']], polygons=True)
                # and what it looks like once written out (on-disk types of the connectivity tables)
                tmp_ = os.path.join(scratch, f'after_fault_{k}.nc')
                try:
                    results[op['res']].ems.to_netcdf(tmp_)
                    obs['raw_after_fault'] = _raw_file_info(tmp_)
                except Exception:
                    pass
            except Exception as e:
                obs['ds_after_fault_error'] = observe.exc_info(e)
        ctx.observe(f'op{k}', obs)
        if not reported_mutation:
            bad = mutated_inputs()
            if bad:
                reported_mutation = True
                ctx.emit('input_mutated', k=k, op=name, names=bad)
        ctx.emit('op_done', k=k, op=name, acked=acked, fired=fired, unfired=[(f['seam'], f['kind']) for f in unfired],
                 crossings={s: (c if s != 'dask' else min(c, 9)) for s, c in sorted(counts.items())})
    if lt['end'] == 'crash_after_ack':
        ctx.crash_after_ack()


ENGINE = ClipSim()
