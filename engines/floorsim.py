"""
floorsim - C12: ocean_floor processes depth dimensions in sorted(..., key=hash) order, i.e. in
an order chosen by PYTHONHASHSEED.  The simulator owns that order (module attribute `hash` of
emsarray.operations.depth), runs every permutation per world, and cross-checks a sample with
real hash seeds in fresh interpreters.  Everything else here is workload variety.
"""
from __future__ import annotations

import copy
import itertools
import json
import os
import subprocess
import sys

import numpy

from sim import lifetimes, observe, seams, worldgen
from . import common


class FloorSim:
    name = 'floorsim'
    properties = ['C12']

    def budget(self, prop, tier):
        return {'quick': {'runs': 4500, 'seconds': 50}, 'thorough': {'runs': 100000, 'seconds': 600}}[tier]

    def rule(self, prop):
        return ('plans drawn from VERIF_SEED: world (every convention) with 1-3 depth coordinates (positive up/down x '
                'deep-to-shallow/shallow-to-deep) on distinct dimensions, static sea floors (0..all layers wet per column, '
                'per (depth, grid kind)), depth dimension in any position, optional time; ocean_floor evaluated under EVERY '
                'processing order of the depth dimensions (injected hash) via Convention.ocean_floor and operations.depth.ocean_floor; '
                'arguments as arrays or as one-shot iterators of names; optionally 1-2 datasets of the same grid with another sea floor reduced first in the same process; a sample of plans is re-run in fresh interpreters with real PYTHONHASHSEED values. Non-trivial = >= 2 depth '
                'coordinates carrying variables (order can matter). Distinct = distinct (convention, materialisation, depth '
                'orientations, which depths carry variables, vias).')

    def real_vs_stub(self):
        return {'real': ['emsarray.operations.depth, Convention.ocean_floor, normalize_depth_variables (working tree)', 'xarray', 'real PYTHONHASHSEED in sampled fresh interpreters'],
                'stub': ['builtin hash as seen by emsarray.operations.depth (decides the processing order of depth dimensions)']}

    def assumptions(self, prop):
        return ['the pattern of layers holding data is static in time and shared by variables on the same (depth, spatial) dimensions (mostly a sea floor: contiguous from the surface; sometimes the surface layer or one mid-water layer is missing)',
                'depth variables are floating point with NaN for missing; a variable has at most one depth dimension and always a grid kind',
                'variable order inside the result is not compared']

    def gen_plan(self, rng, tier):
        big = tier == 'thorough'
        world = worldgen.gen_world(rng, max_n=4 if big else 3, max_faces=8 if big else 5, max_vars=4, with_time=rng.random() < 0.8,
                                   allow_holes=False, materialise=rng.choice(['memory', 'memory', 'file', 'chunked', 'chunked_auto', 'chunked_auto']), min_vars=2)
        worldgen.add_depths(rng, world, max_layers=5 if big else 4, boundary_layers=0.06)
        if rng.random() < 0.15:
            # a static variable that holds no data at all (a field the model did not write), after an ordinary variable on
            # the same layers and grid: it must come out all-missing and must not disturb the others
            seen = {}
            tdim_ = world['time']['dim'] if world['time'] else None
            for v_ in world['vars']:
                key_ = (v_.get('depth'), v_['kind'])
                if v_.get('depth') and key_ in seen:
                    # same layers, same grid, same other dimensions as the earlier variable -- except time: it is static
                    v_['extra'] = [list(e_) for e_ in seen[key_]['extra'] if e_[0] != tdim_]
                    v_['all_missing'] = True
                    v_['perm'] = None
                    break
                if v_.get('depth'):
                    seen[key_] = v_
        vias = [rng.choice(['ops', 'ops', 'ops_names'])]
        if world['time']:
            vias = rng.choice([['ems'], ['ops'], ['ems', 'ops'], ['ops_names'], ['ems', 'ops_names']])
        fresh = [rng.randrange(1, 10000) for _ in range(2)] if rng.random() < (0.01 if not big else 0.004) else []
        # history: datasets of the same model grid (same dimensions, sizes, layer depths) but another bathymetry, reduced
        # earlier in the same process -- whatever emsarray remembers from them must not show in this dataset's floor
        before = [rng.randrange(1 << 30) for _ in range(rng.choice([1, 1, 2]))] if rng.random() < 0.35 else []
        return {'engine': self.name, 'world': world, 'vias': vias, 'fresh_hashseeds': fresh, 'before': before,
                'penv': dict(seams.gen_process_env(rng), warnings_error=rng.random() < 0.2)}

    @staticmethod
    def _in_scope(plan):
        """An all-missing variable is in scope only *after* an ordinary variable on the same layers and grid (emsarray locates
        the floor of a group of variables from the group's first member: the documented shared, static sea floor)."""
        seen = set()
        tdim_ = plan['world']['time']['dim'] if plan['world'].get('time') else None
        for v_ in plan['world']['vars']:
            key_ = (v_.get('depth'), v_['kind'], frozenset(e_[0] for e_ in v_['extra'] if e_[0] != tdim_))
            if v_.get('all_missing') and key_ not in seen:
                return False
            if v_.get('depth') and not v_.get('all_missing'):
                seen.add(key_)
        return True

    def shrink(self, plan):
        for p in self._shrink(plan):
            if self._in_scope(p):
                yield p

    def _shrink(self, plan):
        if plan.get('before'):
            p = copy.deepcopy(plan)
            p['before'] = plan['before'][1:]
            yield p
        if plan['fresh_hashseeds']:
            p = copy.deepcopy(plan)
            p['fresh_hashseeds'] = []
            yield p
        if len(plan['vias']) > 1:
            for v in plan['vias']:
                p = copy.deepcopy(plan)
                p['vias'] = [v]
                yield p
        w = plan['world']
        used = {v.get('depth') for v in w['vars']}
        for k, d in enumerate(w['depths']):
            if d['name'] not in used and len(w['depths']) > 1:
                p = copy.deepcopy(plan)
                del p['world']['depths'][k]
                yield p
        for k, v in enumerate(w['vars']):
            if len(w['vars']) > 1:
                p = copy.deepcopy(plan)
                del p['world']['vars'][k]
                if any(x.get('depth') for x in p['world']['vars']):
                    yield p
            extras = [e for e in v['extra'] if not (v.get('depth') and e[0] == next(d['dim'] for d in w['depths'] if d['name'] == v['depth']))]
            if len(extras) != len(v['extra']) and extras:
                p = copy.deepcopy(plan)
                p['world']['vars'][k]['extra'] = [e for e in v['extra'] if e not in extras[-1:]]
                yield p
            if v.get('perm') is not None:
                p = copy.deepcopy(plan)
                p['world']['vars'][k]['perm'] = None
                yield p
        if w['materialise'] != 'memory':
            p = copy.deepcopy(plan)
            p['world']['materialise'] = 'memory'
            yield p
        for k, d in enumerate(w['depths']):
            if d['positive'] != 'down' or d['order'] != 'shallow_to_deep':
                p = copy.deepcopy(plan)
                dd = p['world']['depths'][k]
                phys = sorted(abs(x) for x in dd['values'])
                dd.update({'positive': 'down', 'order': 'shallow_to_deep', 'values': phys})
                dd['attrs']['positive'] = 'down'
                yield p

    def predicate(self, pred, plan, v):
        return True

    def run(self, plan, scratch, out):
        world = worldgen.World(plan['world'])
        res = lifetimes.run_lifetime(_floor_lifetime, plan['world'], plan['vias'], scratch, plan.get('before') or [], plan.get('penv'))
        if res['status'] != 'exit':
            out.harness_error = f'lifetime: {res["status"]}: {res["error"]}'
            return
        for kind, payload in res['events']:
            out.event(kind, **payload)
            if kind == 'probe':
                out.stats[f"probe.{payload['name']}"] += 1
        results = res['obs'].get('results', [])
        pre = res['obs'].get('pre')
        for bi, fs in enumerate(plan.get('before') or []):
            wb = worldgen.World(_with_floor(plan['world'], fs))
            self.judge(out, wb, plan, res['obs'].get(f'pre_before{bi}'), res['obs'].get(f'results_before{bi}', []), label=f'earlier dataset {bi}: ')
            out.stats['probe.earlier_dataset_same_grid_other_floor'] += 1
        self.judge(out, world, plan, pre, results)
        used = sorted({v['depth'] for v in world.vars.values() if v.get('depth')})
        for seed in plan['fresh_hashseeds']:
            env = dict(os.environ)
            env['PYTHONHASHSEED'] = str(seed)
            env['VERIF_NO_REEXEC'] = '1'
            p = subprocess.run([sys.executable, '-m', 'engines.floorsim', json.dumps(plan['world']), json.dumps(plan['vias']), scratch],
                               capture_output=True, text=True, env=env, cwd=os.path.dirname(os.path.dirname(os.path.abspath(__file__))), timeout=300)
            line = [ln for ln in p.stdout.splitlines() if ln.startswith('FLOOR ')]
            if not line:
                out.harness_error = f'fresh interpreter failed: {p.stdout[-300:]} {p.stderr[-1500:]}'
                return
            fres = json.loads(line[0][6:])
            out.stats['probe.fresh_interpreter_real_hashseed'] += 1
            ref = {r['via']: r for r in results if r['order_ix'] == 0}
            for via, summ in fres.items():
                if via in ref and 'summary' in ref[via] and summ != ref[via]['summary']:
                    out.violate('C12', 'hashseed-dependent', None,
                                f'result under PYTHONHASHSEED={seed} differs from the injected-order result (via {via}): {summ} vs {ref[via]["summary"]}')
            out.event('fresh', n=len(fres))
        orient = tuple(sorted((d['name'], d['positive'], d['order']) for d in plan['world']['depths']))
        out.signature = (world.conv, plan['world']['materialise'], orient, tuple(used), tuple(plan['vias']),
                         tuple(sorted((v['name'], tuple(v['dims'])) for v in world.vars.values() if v.get('depth'))))
        out.nontrivial = {'C12': len(used) >= 2}
        out.stats['runs'] += 1
        out.stats[f'conv.{world.conv}'] += 1
        out.stats[f'depth_coords_used.{len(used)}'] += 1
        out.stats['floor_evaluations'] += len(results)

    def judge(self, out, world, plan, pre, results, label=''):
        P = 'C12'
        if pre is None:
            return
        want_cls = worldgen.CONV_CLASS[world.conv]
        depth_dims = {d['dim'] for d in world.spec['depths']}
        depth_names = {d['name'] for d in world.spec['depths']} | {d['aux'] for d in world.spec['depths'] if d.get('aux')}
        by_via = {}
        for r in results:
            if 'error' in r and r.get('refusal_allowed'):
                # a process in which warnings are errors: refusing loudly is fine (the sign guess warns), a wrong floor is not
                out.stats['probe.refused_under_warnings_as_errors'] += 1
                continue
            if 'error' in r:
                e = r['error']
                out.violate(P, 'floor-raised', e['frame'], f"ocean_floor (via {r['via']}, order {r['order']}) raised {e['exc']}: {e['msg']}")
                continue
            obs = r['obs']
            if r['order_ix'] > 0:
                out.stats['probe.non_default_order_evaluated'] += 1
            # 0. "geometry left as it was": the reduced dataset is still a dataset of the same convention
            conv = obs.get('convention')
            if pre.get('convention') == want_cls and conv != want_cls:
                out.violate(P, 'convention-changed', None,
                            f'{label}the reduced dataset is recognised as {conv if not isinstance(conv, dict) else "nothing (detection raises)"}, the input as {want_cls} (via {r["via"]})')
            # 1. depth variables
            for name, info in world.vars.items():
                ov = obs['vars'].get(name)
                if ov is None:
                    out.violate(P, 'variable-lost', None, f'variable {name} missing from the result (order {r["order"]})')
                    continue
                if info.get('depth'):
                    want_dims = [d for d in info['dims'] if d != info['depth_dim']]
                    # dimension *order* of the reduced variable is not pinned by the statement (vectorised
                    # indexing may move the spatial dimensions); values are compared by dimension name.
                    if sorted(ov['dims']) != sorted(want_dims):
                        out.violate(P, 'dims', None, f'{name}: dims {ov["dims"]}, expected {want_dims} (order {r["order"]})')
                        continue
                    edims = [d for d in info['edims'] if d != info['depth_dim']]
                    eshape = [n for d, n in zip(info['edims'], info['eshape']) if d != info['depth_dim']]
                    want = world.floor_array(name).reshape(eshape + info['sshape'])
                    perm = [ov['dims'].index(d) for d in edims + info['sdims']]
                    got = numpy.transpose(numpy.asarray(ov['values'], dtype='float64'), perm)
                    if not common.arrays_equal_nan(got, want):
                        bad = numpy.argwhere(~((got == want) | (numpy.isnan(got) & numpy.isnan(want))))
                        first = tuple(int(x) for x in bad[0]) if len(bad) else None
                        out.violate(P, 'deepest-value', None,
                                    f'{label}{name}: wrong ocean-floor values (via {r["via"]}, order {r["order"]}); first at {first}: got {got[first] if first else None} want {want[first] if first else None}')
                else:
                    pv = pre['vars'][name]
                    if ov['dims'] != pv['dims'] or not common.arrays_equal_nan(
                            common.decode_missing(ov['values'], ov['attrs']), common.decode_missing(pv['values'], pv['attrs'])):
                        out.violate(P, 'other-variable-changed', None, f'{name} (no depth dimension) was altered (order {r["order"]})')
            # 2. depth dims / coords gone
            left = depth_dims & set(obs['sizes'])
            if left:
                out.violate(P, 'depth-dimension-left', None, f'depth dimensions {sorted(left)} still present')
            leftc = depth_names & set(obs['vars'])
            if leftc:
                out.violate(P, 'depth-coordinate-left', None, f'depth coordinates {sorted(leftc)} still present')
            # 3. every other variable (geometry, time) identical
            for name, pv in pre['vars'].items():
                if name in world.vars or name in depth_names:
                    continue
                ov = obs['vars'].get(name)
                if ov is None:
                    out.violate(P, 'geometry-lost', None, f'variable {name} missing from the result')
                elif ov['dims'] != pv['dims'] or not common.arrays_equal_nan(ov['values'], pv['values']):
                    out.violate(P, 'geometry-changed', None, f'variable {name} changed')
            by_via.setdefault(r['via'], []).append(r)
        # 4. identical under every processing order
        for via, rs in by_via.items():
            ref = rs[0]
            for r in rs[1:]:
                if r['summary'] != ref['summary']:
                    diff = [k for k in set(r['summary']['digests']) | set(ref['summary']['digests'])
                            if r['summary']['digests'].get(k) != ref['summary']['digests'].get(k)]
                    out.violate(P, 'order-dependent', None,
                                f'results differ between processing orders {ref["order"]} and {r["order"]} (via {via}): {sorted(diff)}')


def _summary(obs):
    return {'sizes': dict(sorted(obs['sizes'].items())),
            'dims': {k: v['dims'] for k, v in sorted(obs['vars'].items())},
            'digests': {k: observe.values_digest(numpy.asarray(v['values'], dtype='float64') if numpy.asarray(v['values']).dtype.kind in 'iuf' else v['values'])
                        for k, v in sorted(obs['vars'].items())}}


def _with_floor(world_spec, floor_seed):
    spec = copy.deepcopy(world_spec)
    spec['floor_seed'] = floor_seed
    return spec


def _evaluate(world_spec, vias, scratch, orders, tag='input', warnings_error=False):
    """yields result dicts; orders None = do not inject (real hash)."""
    import emsarray
    import emsarray.operations.depth as depth_mod
    world = worldgen.World(world_spec)
    ds = common.open_world(world, scratch, tag=tag)
    pre = observe.observe_dataset(ds, convention=True)
    depth_dims = [d['dim'] for d in world_spec['depths']]
    results = []
    perms = list(itertools.permutations(depth_dims)) if orders is None else orders
    if orders is None:
        perms = perms
    for oi, order in enumerate(perms):
        if order is not None:
            depth_mod.hash = lambda s, _o=list(order): _o.index(s) if s in _o else len(_o)
        for via in vias:
            import warnings
            try:
              with warnings.catch_warnings():
                if warnings_error:
                    warnings.simplefilter('error')       # this process runs the way `python -W error` / pytest -W error does
                if via == 'ems':
                    fl = ds.ems.ocean_floor()
                else:
                    coords = [ds[d['name']] for d in world_spec['depths']]
                    nsv = [ds[world_spec['time']['name']]] if world_spec['time'] else []
                    if via == 'ops_names':
                        # the documented argument types: any iterable of DataArrayOrName -- here names, handed over as one-shot iterators
                        fl = depth_mod.ocean_floor(ds, iter([d['name'] for d in world_spec['depths']]),
                                                   non_spatial_variables=iter([n_.name for n_ in nsv]))
                    else:
                        fl = depth_mod.ocean_floor(ds, coords, non_spatial_variables=nsv)
              obs = observe.observe_dataset(fl, convention=True)
              results.append({'via': via, 'order': list(order) if order else None, 'order_ix': oi, 'obs': obs, 'summary': _summary(obs)})
            except Exception as e:
                results.append({'via': via, 'order': list(order) if order else None, 'order_ix': oi, 'error': observe.exc_info(e),
                                'refusal_allowed': bool(warnings_error)})
    return pre, results


def _floor_lifetime(ctx, world_spec, vias, scratch, before, penv=None):
    seams.apply_process_env(penv, ctx, scratch)
    for bi, fs in enumerate(before or []):
        pre_b, results_b = _evaluate(_with_floor(world_spec, fs), vias, scratch, [None], tag=f'before{bi}_')
        for r in results_b:
            ctx.emit('floor_before', n=bi, via=r['via'], ok='error' not in r,
                     summary=r.get('summary') if 'error' not in r else {'exc': r['error']['exc'], 'frame': r['error']['frame']})
        ctx.observe(f'pre_before{bi}', pre_b)
        ctx.observe(f'results_before{bi}', results_b)
    pre, results = _evaluate(world_spec, vias, scratch, None, warnings_error=bool((penv or {}).get('warnings_error')))
    for r in results:
        ctx.emit('floor', via=r['via'], order=r['order'], ok='error' not in r,
                 summary=r.get('summary') if 'error' not in r else {'exc': r['error']['exc'], 'frame': r['error']['frame']})
    ctx.observe('pre', pre)
    ctx.observe('results', results)


def _fresh_main():
    """python -m engines.floorsim <world json> <vias json> <scratch>: real hash order, print summaries."""
    from sim import bootstrap
    bootstrap.ensure_env()
    world_spec = json.loads(sys.argv[1])
    vias = json.loads(sys.argv[2])
    pre, results = _evaluate(world_spec, vias, sys.argv[3], [None])
    out = {}
    for r in results:
        out[r['via']] = r.get('summary') if 'error' not in r else {'error': r['error']['exc']}
    print('FLOOR ' + json.dumps(out, sort_keys=True))


ENGINE = FloorSim()

if __name__ == '__main__':
    _fresh_main()
