"""
bindsim - C11: histories over the two pieces of mutable state behind convention detection and
binding (the per-dataset State held in xarray's accessor cache; the module-global registry with
its cached lists), under a simulator-owned plug-in environment (entry-point order, broken and
duplicate entries).  A small reference model is stepped alongside, operation by operation.
"""
from __future__ import annotations

import copy
import json
import pickle
import re

import numpy

from sim import lifetimes, observe, worldgen
from . import common

SPEC_LEVELS = [10, 20, 30, 5, 40, 25, 35, 30, 10]
MUTATIONS = {
    'ugrid': ['no_conventions', 'conventions_other', 'topology_dim_1', 'no_topology_dim', 'topology_dim_3', 'no_mesh_var', 'no_cf_role'],
    'shoc_simple': ['no_ems_version', 'rename_dim'],
    'shoc_standard': ['rename_coord_left', 'drop_coord_grid'],
    'cf1d': ['strip_coord_attrs'],
    'cf2d': ['strip_coord_attrs', 'projected_axes', 'projected_axes'],
}
COPY_HOWS = ['copy', 'copy_deep', 'copy_module', 'deepcopy_module', 'pickle']


def read_entry_points():
    """The genuine entries, read from /repo/pyproject.toml at run time (working tree)."""
    text = open('/repo/pyproject.toml').read()
    m = re.search(r'\[project\.entry-points\."emsarray\.conventions"\](.*?)(?:\n\[|\Z)', text, re.S)
    out = []
    for line in m.group(1).splitlines():
        line = line.split('#')[0].strip()
        mm = re.match(r'^(\w+)\s*=\s*"([^"]+)"$', line)
        if mm:
            out.append((mm.group(1), mm.group(2)))
    return out


# synthetic conventions (module level so that bound datasets can be pickled) ------------------
def _make_syn():
    from emsarray.conventions._base import Convention
    from emsarray.conventions.grid import CFGrid1D

    def _stub(self, *args, **kwargs):
        raise NotImplementedError('synthetic convention')
    stubs = {name: _stub for name in ('ravel_index', 'wind_index', 'get_grid_kind', 'ravel', 'wind', '_make_polygons',
                                      'selector_for_indexes', 'get_all_geometry_names', 'make_clip_mask', 'apply_clip_mask')}
    stubs.update({'grid_kinds': frozenset(), 'default_grid_kind': None, 'grid_size': {}})
    classes = []
    for k in range(4):
        marker = f'syn{k}'

        def check_dataset(cls, dataset):
            v = dataset.attrs.get(cls.marker)
            return None if v is None else int(v)
        ns = {'marker': marker, 'check_dataset': classmethod(check_dataset), '__module__': __name__}
        # two in-house conventions extend a built-in one, two are written from scratch on the abstract base class
        base = CFGrid1D if k % 2 == 0 else Convention
        if base is Convention:
            ns.update(stubs)
        cls = type(f'Syn{k}', (base,), ns)
        globals()[f'Syn{k}'] = cls
        classes.append(cls)
    return classes


def _make_raising():
    from emsarray.conventions.grid import CFGrid1D

    def check_dataset(cls, dataset):
        if 'syn_raise' in dataset.attrs:
            raise KeyError('injected: plug-in check_dataset trips over this dataset')
        return None
    cls = type('SynRaise', (CFGrid1D,), {'check_dataset': classmethod(check_dataset), '__module__': __name__})
    globals()['SynRaise'] = cls
    return cls


SYN = None
RAISING = None


def syn_classes():
    global SYN
    if SYN is None:
        SYN = _make_syn()
    return SYN


class BindSim:
    name = 'bindsim'
    properties = ['C11']

    def budget(self, prop, tier):
        return {'quick': {'runs': 9000, 'seconds': 50}, 'thorough': {'runs': 400000, 'seconds': 600}}[tier]

    def rule(self, prop):
        return ('plans drawn from VERIF_SEED: pool of 2-5 datasets (valid per convention, near-misses with one distinguishing '
                'attribute/variable removed, datasets carrying markers for synthetic conventions at planned specificities) x 1-3 '
                'lifetimes each with its own entry-point environment (permuted order; entries whose load raises ImportError / '
                'AttributeError, yield a non-class / non-Convention class, duplicate, share a name with another class, or raise from check_dataset) x 3-12 ops from {register, detect, access, '
                'construct+bind (also with constructor arguments / non-default coordinates), bind again, copy (5 ways), derive, mutate in place}. Checked op by op against a reference model and, for detection, against the same code on a registry without history. '
                'Non-trivial = at least one access/bind and one detect executed. Distinct = distinct signature (dataset kinds, '
                'per-lifetime environment fault kinds, op-kind sequence).')

    def real_vs_stub(self):
        return {'real': ['emsarray registry, accessor, State, Convention.bind, every check_dataset (working tree)', 'xarray accessor cache, copy, pickle'],
                'stub': ['importlib.metadata as seen by emsarray.conventions._registry (entry-point enumeration order and load() outcomes); genuine entries are read from /repo/pyproject.toml',
                         'four synthetic Convention subclasses with planned specificities']}

    def assumptions(self, prop):
        return ['single-threaded histories (the statement quantifies over inputs and histories, not schedules)',
                'ties between conventions of one source (two registered, or two entry points) are only required to be repeatable, not ranked',
                'a fresh ConventionRegistry per lifetime stands for a fresh interpreter']

    # -- planning ------------------------------------------------------------------------
    def gen_plan(self, rng, tier):
        n_ds = rng.randint(2, 5)
        datasets = []
        for _ in range(n_ds):
            kind = rng.choice(['valid', 'valid', 'near_miss', 'marked', 'empty'])
            if kind == 'empty':
                datasets.append({'world': None, 'mut': None, 'markers': rng.choice([{}, {}, {'syn0': rng.choice(SPEC_LEVELS)}])})
                continue
            world = worldgen.gen_world(rng, max_n=2, max_faces=3, max_vars=1, with_time=False, allow_perm=False,
                                       allow_holes=False, materialise='memory')
            mut = rng.choice(MUTATIONS[world['conv']]) if kind == 'near_miss' else None
            markers = {}
            if kind == 'marked' or rng.random() < 0.25:
                tie = rng.choice(SPEC_LEVELS) if rng.random() < 0.4 else None     # several plug-ins equally sure of this dataset
                for k in rng.sample(range(4), rng.randint(1, 3)):
                    markers[f'syn{k}'] = tie if tie is not None else rng.choice(SPEC_LEVELS)
            if rng.random() < 0.12:
                markers['syn_raise'] = 1      # a dataset over which one (broken) plug-in's check_dataset raises
            datasets.append({'world': world, 'mut': mut, 'markers': markers})
        entries = [n for n, _ in read_entry_points()]
        lifetimes_ = []
        for _ in range(rng.choice([1, 1, 2, 3])):
            order = entries[:]
            rng.shuffle(order)
            env = [{'kind': 'real', 'name': n} for n in order]
            for _ in range(rng.choice([0, 0, 1, 2, 3])):
                fk = rng.choice(['import_error', 'attr_error', 'non_class', 'non_convention', 'dup', 'raising_check', 'same_name_plugin', 'same_name_plugin'])
                item = {'kind': fk, 'name': rng.choice(order)}
                if fk == 'same_name_plugin':
                    item['syn'] = rng.randrange(4)
                env.insert(rng.randint(0, len(env)), item)
            if rng.random() < 0.1:
                drop = rng.choice(order)
                env = [e for e in env if e['name'] != drop or e['kind'] != 'real']
            ops = []
            handles = n_ds
            for _ in range(rng.randint(3, 12)):
                kind = rng.choice(['register', 'detect', 'detect', 'access', 'access', 'access', 'construct_bind', 'bind_again',
                                   'copy', 'copy', 'derive', 'mutate', 'access_fresh', 'construct_args'])
                op = {'op': kind}
                if kind == 'register':
                    op['cls'] = rng.choice(['syn0', 'syn1', 'syn2', 'syn3', 'syn0', 'builtin:' + rng.choice(entries)])
                else:
                    op['ds'] = rng.randrange(handles)
                if kind == 'construct_bind':
                    op['cls'] = rng.choice(['detected', 'detected', 'syn0', 'syn1', 'builtin:CFGrid1D'])
                if kind == 'construct_args':
                    handles += 1
                if kind == 'copy':
                    op['how'] = rng.choice(COPY_HOWS)
                    handles += 1
                if kind == 'derive':
                    op['how'] = rng.choice(['assign_attrs', 'isel', 'drop_attr', 'reorder', 'reorder'])
                    handles += 1
                if kind == 'mutate':
                    op['how'] = rng.choice(['pop_conventions', 'pop_markers', 'add_attr', 'pop_ems_version', 'add_variable', 'add_variable', 'drop_variable_in_place'])
                ops.append(op)
                if kind == 'register' and rng.random() < 0.5:
                    # plug-ins tend to be registered together (one import registers several classes)
                    ops.append({'op': 'register', 'cls': rng.choice(['syn0', 'syn1', 'syn2', 'syn3'])})
                    if rng.random() < 0.6:
                        ops.append({'op': 'detect', 'ds': rng.randrange(n_ds)})
            lifetimes_.append({'env': env, 'ops': ops})
        from sim import seams
        plan = {'engine': self.name, 'datasets': datasets, 'lifetimes': lifetimes_, 'penv': seams.gen_process_env(rng)}
        if rng.random() < 0.012:
            # "a function of the dataset's content alone": every lifetime is also run as the main program of a fresh
            # interpreter under another hash seed; op for op it must report the same thing
            plan['twin_hashseed'] = rng.randrange(1, 100000)
        return plan

    def shrink(self, plan):
        if len(plan['lifetimes']) > 1:
            for k in range(len(plan['lifetimes'])):
                p = copy.deepcopy(plan)
                del p['lifetimes'][k]
                yield p
        for li, lt in enumerate(plan['lifetimes']):
            for k in reversed(range(len(lt['ops']))):
                if lt['ops'][k]['op'] in ('copy', 'derive', 'construct_args'):
                    continue  # would renumber handles
                p = copy.deepcopy(plan)
                del p['lifetimes'][li]['ops'][k]
                yield p
            for k, e in enumerate(lt['env']):
                if e['kind'] != 'real':
                    p = copy.deepcopy(plan)
                    del p['lifetimes'][li]['env'][k]
                    yield p
            real = [e for e in lt['env'] if e['kind'] == 'real']
            if real != sorted(real, key=lambda e: e['name']):
                p = copy.deepcopy(plan)
                others = [e for e in lt['env'] if e['kind'] != 'real']
                p['lifetimes'][li]['env'] = sorted(real, key=lambda e: e['name']) + others
                yield p
        for k, d in enumerate(plan['datasets']):
            if d['markers']:
                p = copy.deepcopy(plan)
                p['datasets'][k]['markers'] = {}
                yield p
            if d['mut']:
                p = copy.deepcopy(plan)
                p['datasets'][k]['mut'] = None
                yield p

    def predicate(self, pred, plan, v):
        return True

    # -- execution -----------------------------------------------------------------------
    def run(self, plan, scratch, out):
        sig = []
        did_access = did_detect = False
        for li, lt in enumerate(plan['lifetimes']):
            res = lifetimes.run_lifetime(_bind_lifetime, plan['datasets'], lt, plan.get('penv'))
            if res['status'] != 'exit':
                out.harness_error = f'lifetime {li}: status {res["status"]}: {res["error"]}'
                return
            for kind, payload in res['events']:
                out.event(kind, lt=li, **payload)
                if kind == 'check_failed':
                    out.violate('C11', payload['clause'], payload.get('frame'), res['obs'].get(f'detail{payload["n"]}', ''))
                elif kind == 'op':
                    out.stats[f'op.{payload["op"]}'] += 1
                    if payload['op'] in ('access', 'construct_bind', 'access_fresh'):
                        did_access = True
                    if payload['op'] == 'detect':
                        did_detect = True
                elif kind == 'probe':
                    out.stats[f'probe.{payload["name"]}'] += 1
            if plan.get('twin_hashseed'):
                twin = lifetimes.run_lifetime_fresh('engines.bindsim', '_bind_lifetime', (plan['datasets'], lt, plan.get('penv')), scratch,
                                                    env={'PYTHONHASHSEED': str(plan['twin_hashseed'])})
                if twin['status'] != 'exit':
                    out.harness_error = f'twin lifetime {li}: status {twin["status"]}: {twin["error"]}'
                    return
                out.stats['probe.lifetime_repeated_in_fresh_interpreter_other_hashseed'] += 1
                a_ = [json.dumps(e_, sort_keys=True, default=str) for e_ in res['events']]
                b_ = [json.dumps(e_, sort_keys=True, default=str) for e_ in twin['events']]
                if a_ != b_:
                    k_ = next((i_ for i_, (x_, y_) in enumerate(zip(a_, b_)) if x_ != y_), min(len(a_), len(b_)))
                    out.violate('C11', 'differs-across-processes', None,
                                f'lifetime {li}: under PYTHONHASHSEED={plan["twin_hashseed"]} event {k_} is {b_[k_][:200] if k_ < len(b_) else None}, '
                                f'in the harness process {a_[k_][:200] if k_ < len(a_) else None}')
                out.event('twin', lt=li, same=a_ == b_)
            for e in lt['env']:
                if e['kind'] != 'real':
                    out.stats[f'fault.entry_point.{e["kind"]}'] += 1
            sig.append((tuple(sorted({e['kind'] for e in lt['env']})), [e['name'] for e in lt['env'] if e['kind'] == 'real'][:2],
                        tuple(o['op'] for o in lt['ops'])))
        out.signature = (tuple((d['world']['conv'] if d['world'] else 'empty', d['mut'], tuple(sorted(d['markers']))) for d in plan['datasets']), tuple(sig))
        out.nontrivial = {'C11': did_access and did_detect}
        out.stats['runs'] += 1
        out.stats['lifetimes'] += len(plan['lifetimes'])


# ----------------------------------------------------------------------------------------
# lifetime body: real system + reference model, stepped together
# ----------------------------------------------------------------------------------------

class _FakeEntryPoint:
    def __init__(self, name, value, loader):
        self.name, self.value, self.group = name, value, 'emsarray.conventions'
        self._loader = loader

    def load(self):
        return self._loader()

    def __repr__(self):
        return f'EntryPoint(name={self.name!r}, value={self.value!r}, group={self.group!r})'


def _build_dataset(desc):
    import xarray
    if desc['world'] is None:
        ds = xarray.Dataset({'values': (['a'], [1.0, 2.0])})
    else:
        ds = worldgen.World(desc['world']).dataset()
        mut = desc['mut']
        conv = desc['world']['conv']
        if mut == 'no_conventions':
            ds.attrs.pop('Conventions', None)
        elif mut == 'conventions_other':
            ds.attrs['Conventions'] = 'CF-1.6'
        elif mut == 'topology_dim_1':
            ds['Mesh2'].attrs['topology_dimension'] = 1
        elif mut == 'no_topology_dim':
            ds['Mesh2'].attrs.pop('topology_dimension', None)
        elif mut == 'topology_dim_3':
            ds['Mesh2'].attrs['topology_dimension'] = 3
        elif mut == 'no_mesh_var':
            ds = ds.drop_vars('Mesh2')
        elif mut == 'no_cf_role':
            ds['Mesh2'].attrs.pop('cf_role')
        elif mut == 'no_ems_version':
            ds.attrs.pop('ems_version', None)
        elif mut == 'rename_dim':
            ds = ds.rename({'j': 'jj'})
        elif mut == 'rename_coord_left':
            ds = ds.rename({'x_left': 'x_port'})
        elif mut == 'drop_coord_grid':
            ds = ds.drop_vars('y_grid')
        elif mut == 'projected_axes':
            # a projected model grid: one-dimensional y / x axis coordinates (metres) next to the two-dimensional
            # latitude / longitude -- both CF grid conventions have something to hold on to
            w_ = desc['world']
            ds = ds.assign_coords({
                'y_axis': ((w_['ydim'],), numpy.arange(ds.sizes[w_['ydim']], dtype='float64') * 1000.0, {'axis': 'Y', 'units': 'm', 'standard_name': 'projection_y_coordinate'}),
                'x_axis': ((w_['xdim'],), numpy.arange(ds.sizes[w_['xdim']], dtype='float64') * 1000.0, {'axis': 'X', 'units': 'm', 'standard_name': 'projection_x_coordinate'}),
            })
        elif mut == 'strip_coord_attrs':
            for name in list(ds.variables):
                for a in ('units', 'standard_name', 'axis'):
                    ds[name].attrs.pop(a, None)
    for k, v in desc['markers'].items():
        ds.attrs[k] = v
    return ds


def _bind_lifetime(ctx, dataset_descs, lt, penv=None):
    import importlib
    import tempfile

    from sim import seams
    seams.apply_process_env(dict(penv or {}, tmpdir_other_fs=False), ctx, tempfile.gettempdir())

    import emsarray
    from emsarray.conventions import _registry
    from emsarray.conventions._base import Convention
    from emsarray.state import State

    syn = {c.marker: c for c in syn_classes()}
    genuine = dict(read_entry_points())

    def load_real(value):
        mod, attr = value.split(':')
        return getattr(importlib.import_module(mod), attr)

    eps = []
    model_entry = []          # valid classes, de-duplicated, environment order
    for e in lt['env']:
        value = genuine.get(e['name'], 'emsarray.conventions:Nope')
        if e['kind'] == 'real':
            eps.append(_FakeEntryPoint(e['name'], value, lambda v=value: load_real(v)))
            c = load_real(value)
            if c not in model_entry:
                model_entry.append(c)
        elif e['kind'] == 'dup':
            eps.append(_FakeEntryPoint(e['name'] + '_again', value, lambda v=value: load_real(v)))
            c = load_real(value)
            if c not in model_entry:
                model_entry.append(c)
        elif e['kind'] == 'same_name_plugin':
            # another distribution that calls its entry point like an existing one, but provides another class
            c = syn[f"syn{e.get('syn', 3)}"]
            eps.append(_FakeEntryPoint(e['name'], 'thirdparty.plugin:' + c.__name__, lambda c_=c: c_))
            if c not in model_entry:
                model_entry.append(c)
        elif e['kind'] == 'import_error':
            def _raise_import():
                raise ImportError('injected: plug-in module missing')
            eps.append(_FakeEntryPoint('broken_import', 'nope.module:Thing', _raise_import))
        elif e['kind'] == 'attr_error':
            def _raise_attr():
                raise AttributeError('injected: plug-in attribute missing')
            eps.append(_FakeEntryPoint('broken_attr', 'emsarray.conventions:Nope', _raise_attr))
        elif e['kind'] == 'non_class':
            eps.append(_FakeEntryPoint('non_class', 'os.path:join', lambda: len))
        elif e['kind'] == 'non_convention':
            eps.append(_FakeEntryPoint('non_convention', 'builtins:dict', lambda: dict))
        elif e['kind'] == 'raising_check':
            global RAISING
            if RAISING is None:
                RAISING = _make_raising()
            eps.append(_FakeEntryPoint('raising_check', 'engines.bindsim:SynRaise', lambda: RAISING))
            if RAISING not in model_entry:
                model_entry.append(RAISING)

    class _MetadataShim:
        @staticmethod
        def entry_points(group=None, **kw):
            return list(eps)

        def __getattr__(self, name):
            from importlib import metadata
            return getattr(metadata, name)

    _registry.metadata = _MetadataShim()
    _registry.registry = _registry.ConventionRegistry()

    n_fail = [0]

    def fail(clause, detail, frame=None):
        n_fail[0] += 1
        ctx.observe(f'detail{n_fail[0]}', detail)
        ctx.emit('check_failed', clause=clause, frame=frame, n=n_fail[0])

    def probe(name):
        ctx.emit('probe', name=name)

    # model state -------------------------------------------------------------------------
    registered = []                    # classes in registration order
    datasets = [_build_dataset(d) for d in dataset_descs]
    bound = {}                         # handle -> convention object the model believes is bound
    last_detect = {}                   # (handle) -> (registry_version, class)
    reg_version = [0]

    def candidates():
        out = []
        for c in registered + model_entry:
            if c not in out:
                out.append(c)
        return out

    def expected_detect(ds):
        """-> (allowed set, must_be) using each class's own check_dataset for specificities."""
        scored = []
        for c in candidates():
            try:
                s = c.check_dataset(ds)
            except Exception as e:  # a check_dataset that raises is reported separately
                return None, ('raises', c.__name__, repr(e)[:200])
            if s is not None:
                scored.append((c, s))
        if not scored:
            return set(), None
        top = max(s for _, s in scored)
        tied = [c for c, s in scored if s == top]
        reg_tied = [c for c in tied if c in registered]
        if reg_tied:
            return set(reg_tied), (reg_tied[0] if len(reg_tied) == 1 else None)
        return set(tied), (tied[0] if len(tied) == 1 else None)

    def named_cases(h, ds, got):
        """The cases the statement names, on content alone (only when no synthetic marker interferes)."""
        if h >= len(dataset_descs):
            return
        d = dataset_descs[h]
        if any(k in ds.attrs for k in syn) or d['world'] is None:
            return
        conv = d['world']['conv']
        all_builtin = {c.__name__ for c in model_entry}
        name = None if got is None else got.__name__
        want = worldgen.CONV_CLASS[conv]
        if not mutated.get(h) and d['mut'] is None and want in all_builtin:
            if conv in ('shoc_simple', 'shoc_standard', 'ugrid') and name != want:
                fail('named-case', f'valid {conv} dataset detected as {name}, statement requires {want}')
            if conv in ('cf1d', 'cf2d') and name != want:
                fail('named-case', f'valid {conv} dataset detected as {name}, expected {want}')
        if conv == 'ugrid' and d['mut'] in MUTATIONS['ugrid'] and name == 'UGrid':
            fail('named-case', f'UGRID near-miss ({d["mut"]}) still detected as UGrid')
        if conv == 'shoc_simple' and d['mut'] in ('no_ems_version', 'rename_dim') and name == 'ShocSimple':
            fail('named-case', f'SHOC simple near-miss ({d["mut"]}) still detected as ShocSimple')
        if conv == 'shoc_standard' and d['mut'] and name == 'ShocStandard':
            fail('named-case', f'SHOC standard near-miss ({d["mut"]}) still detected as ShocStandard')
        if conv in ('cf1d', 'cf2d') and d['mut'] == 'strip_coord_attrs' and name is not None:
            fail('named-case', f'dataset without any coordinate markers detected as {name}')

    mutated = {}

    def state_conv(ds):
        return State.get(ds).convention

    def check_invariants(skip=None):
        for h, ds in enumerate(datasets):
            if ds is None:
                continue
            cur = state_conv(ds)
            want = bound.get(h)
            if cur is not want:
                fail('binding-stable', f'dataset #{h}: bound convention changed behind the API: have {type(cur).__name__ if cur is not None else None}, model {type(want).__name__ if want is not None else None}')
                bound[h] = cur
            if cur is not None and cur.dataset is not ds:
                fail('binding-owner', f'dataset #{h}: bound convention points at another dataset')
        convs = [c for c in bound.values() if c is not None]
        if len({id(c) for c in convs}) != len(convs):
            fail('binding-shared', 'two datasets share one convention object')

    def resolve_cls(spec, ds):
        if spec == 'detected':
            try:
                return emsarray.get_dataset_convention(ds)
            except KeyError:
                return None      # a raising plug-in: nothing to construct
        if spec.startswith('builtin:'):
            return load_real(genuine[spec.split(':', 1)[1]])
        return syn[spec]

    # ops ---------------------------------------------------------------------------------
    for k, op in enumerate(lt['ops']):
        kind = op['op']
        h = op.get('ds')
        if h is not None and (h >= len(datasets) or datasets[h] is None):
            ctx.emit('skipped', k=k, op=kind)
            continue
        ds = datasets[h] if h is not None else None
        ctx.emit('op', k=k, op=kind, ds=h, arg=op.get('cls') or op.get('how'))
        try:
            if kind == 'register':
                cls = resolve_cls(op['cls'], None) if op['cls'] != 'detected' else None
                ret = emsarray.conventions.register_convention(cls)
                if ret is not cls:
                    fail('register-returns-class', 'register_convention did not return the class')
                registered.append(cls)
                reg_version[0] += 1
                if any(v for v in last_detect.values()):
                    probe('register_after_detect')
            elif kind == 'detect':
                allowed, must = expected_detect(ds)
                try:
                    got = emsarray.get_dataset_convention(ds)
                    got_raised = False
                except KeyError:
                    got, got_raised = 'raised', True
                if allowed and len(allowed) >= 2 and all(c_ in registered for c_ in allowed):
                    probe('tie_between_registered_conventions')
                # reference: the same code on a registry without history -- the same registrations in the same order, made
                # before anything was ever detected.  "A function of the dataset's content alone": what was detected,
                # accessed or registered *earlier* must not show in the answer.
                fresh_reg = _registry.ConventionRegistry()
                for c_ in registered:
                    fresh_reg.add_convention(c_)
                try:
                    fresh_got = fresh_reg.guess_convention(ds)
                except KeyError:
                    fresh_got = 'raised'
                if fresh_got is not got:
                    fail('history-dependent-detection',
                         f'dataset #{h}: detected as {getattr(got, "__name__", got)}, but a registry given the same registrations in the same order '
                         f'before any detection says {getattr(fresh_got, "__name__", fresh_got)}')
                else:
                    probe('detect_agrees_with_fresh_registry')
                if allowed is None:
                    # a (broken) plug-in raises from check_dataset for this dataset: the statement does not say what
                    # detection must do then, only that the answer is a function of content: it must be repeatable
                    probe('detect_with_raising_plugin')
                    prev = last_detect.get(h)
                    if prev and prev[0] == (reg_version[0], mutated.get(h, 0)) and prev[1] is not got and prev[1] != got:
                        fail('detect-repeatable', f'dataset #{h}: with a plug-in whose check_dataset raises, detection gave {prev[1]} first and {got} later, nothing having changed')
                    last_detect[h] = ((reg_version[0], mutated.get(h, 0)), got)
                elif got_raised:
                    fail('op-raised', f'detect raised KeyError although no convention check raises for dataset #{h}')
                else:
                    if not allowed:
                        probe('detect_nothing_matches')
                        if got is not None:
                            fail('detect-none', f'nothing matches dataset #{h} but {got.__name__} was chosen')
                    else:
                        if got is None or got not in allowed:
                            fail('detect-specificity', f'dataset #{h}: chose {None if got is None else got.__name__}, allowed {sorted(c.__name__ for c in allowed)} (registered={[c.__name__ for c in registered]})')
                        elif must is not None and got is not must:
                            fail('detect-specificity', f'dataset #{h}: chose {got.__name__}, must be {must.__name__}')
                        if any(c in registered for c in allowed) and len(allowed) >= 1 and got in allowed:
                            probe('registered_wins')
                    prev = last_detect.get(h)
                    if prev and prev[0] == (reg_version[0], mutated.get(h, 0)) and prev[1] is not got:
                        fail('detect-repeatable', f'dataset #{h}: detection changed without any change to registry or content')
                    last_detect[h] = ((reg_version[0], mutated.get(h, 0)), got)
                    named_cases(h, ds, got)
            elif kind in ('access', 'access_fresh'):
                if kind == 'access_fresh':
                    # a fresh rebuild of the same content must get the same class (function of content alone)
                    if h < len(dataset_descs) and not mutated.get(h):
                        fresh = _build_dataset(dataset_descs[h])
                        try:
                            a = emsarray.get_dataset_convention(fresh)
                        except KeyError:
                            a = 'raised'
                        try:
                            b = emsarray.get_dataset_convention(ds)
                        except KeyError:
                            b = 'raised'
                        if a is not b:
                            fail('content-alone', f'dataset #{h}: a fresh dataset with identical content is detected as {a} but this one as {b}')
                was = bound.get(h)
                allowed, must = expected_detect(ds) if was is None else (None, None)
                if was is None and allowed is None:
                    ctx.emit('skipped', k=k, op=kind)
                    check_invariants()
                    continue
                try:
                    conv = ds.ems
                except Exception as e:
                    if was is not None:
                        fail('access-bound-raises', f'dataset #{h} is bound but .ems raised {type(e).__name__}')
                    elif allowed:
                        fail('access-refused', f'dataset #{h} has matching conventions {sorted(c.__name__ for c in allowed)} but .ems raised {type(e).__name__}: {e}',
                             frame=observe.exc_frame(e)[1])
                    else:
                        probe('access_refused_no_match')
                        if state_conv(ds) is not None:
                            fail('refused-but-bound', f'dataset #{h}: refused access left a binding behind')
                else:
                    if was is not None:
                        if conv is not was:
                            fail('access-identity', f'dataset #{h}: later access returned a different object than the bound convention')
                        probe('access_bound_again')
                    else:
                        if allowed is not None and not allowed:
                            fail('access-unmatched-bound', f'dataset #{h}: nothing matches but .ems returned {type(conv).__name__}')
                        elif allowed is not None and (type(conv) not in allowed or (must is not None and type(conv) is not must)):
                            fail('access-class', f'dataset #{h}: .ems bound {type(conv).__name__}, allowed {sorted(c.__name__ for c in allowed)}')
                        if not isinstance(conv, Convention):
                            fail('access-class', 'accessor did not return a Convention')
                        if conv.dataset is not ds:
                            fail('binding-owner', f'dataset #{h}: autodetected convention points at another dataset')
                        if state_conv(ds) is not conv:
                            fail('access-not-bound', f'dataset #{h}: autodetected convention was not bound (a second access would re-detect)')
                        again = ds.ems
                        if again is not conv:
                            fail('access-identity', f'dataset #{h}: second access returned another object')
                        bound[h] = state_conv(ds)
                        if bound[h] is None:
                            bound[h] = None
            elif kind == 'construct_bind':
                cls = resolve_cls(op['cls'], ds)
                if cls is None:
                    ctx.emit('skipped', k=k, op=kind)
                else:
                    was = bound.get(h)
                    conv = cls(ds)
                    try:
                        conv.bind()
                    except ValueError:
                        if was is None:
                            fail('bind-refused-unbound', f'dataset #{h} is unbound but bind() raised')
                        else:
                            probe('second_bind_refused')
                    else:
                        if was is not None:
                            fail('second-bind-accepted', f'dataset #{h} was already bound; a second bind() was accepted')
                        bound[h] = conv
                        if ds.ems is not conv:
                            fail('access-identity', f'dataset #{h}: .ems is not the manually bound convention')
            elif kind == 'construct_args':
                # a convention constructed by hand WITH arguments (custom coordinate names) on a renamed copy:
                # whatever it does must stay with that one instance
                from emsarray.conventions.grid import CFGrid2D as _CF2
                from emsarray.conventions.shoc import ShocStandard as _SS
                desc = dataset_descs[h] if h < len(dataset_descs) else None
                new = None
                if desc and desc['world'] and desc['world']['conv'] == 'shoc_standard' and not desc['mut'] and not mutated.get(h):
                    ren = {'x_centre': 'xc', 'y_centre': 'yc', 'x_left': 'xl', 'y_left': 'yl', 'x_back': 'xb', 'y_back': 'yb', 'x_grid': 'xg', 'y_grid': 'yg'}
                    new = ds.rename(ren)
                    conv = _SS(new, coordinate_names={'face': ('yc', 'xc'), 'left': ('yl', 'xl'), 'back': ('yb', 'xb'), 'node': ('yg', 'xg')})
                    conv.bind()
                    probe('convention_constructed_with_arguments')
                elif desc and desc['world'] and desc['world']['conv'] in ('cf2d', 'shoc_simple') and not desc['mut']:
                    w_ = desc['world']
                    new = ds.copy()
                    if op.get('alt_coords', True) and not w_.get('coords_as_vars'):
                        # a second pair of two-dimensional coordinates (as ROMS writes rho and psi points); the user names
                        # the pair that auto-detection would *not* pick
                        for src_, alt_ in ((w_['yvar'], 'lat_alt'), (w_['xvar'], 'lon_alt')):
                            v_ = new[src_].variable
                            new = new.assign_coords({alt_: (v_.dims, numpy.asarray(v_.values) + 0.001,
                                                           {a_: b_ for a_, b_ in v_.attrs.items() if a_ != 'bounds'})})
                        conv = _CF2(new, latitude='lat_alt', longitude='lon_alt')
                        probe('convention_bound_to_non_default_coordinates')
                    else:
                        conv = _CF2(new, latitude=w_['yvar'], longitude=w_['xvar'])
                    conv.bind()
                    probe('convention_constructed_with_arguments')
                nh = len(datasets)
                dataset_descs = list(dataset_descs)
                if new is not None:
                    datasets.append(new)
                    dataset_descs.append({'world': None, 'mut': None, 'markers': {}})
                    mutated[nh] = 1   # not rebuildable from a description
                    bound[nh] = conv
                else:
                    datasets.append(ds.copy())
                    if h < len(dataset_descs):
                        dataset_descs.append(dataset_descs[h])
                        mutated[nh] = mutated.get(h, 0)
                    else:
                        dataset_descs.append({'world': None, 'mut': None, 'markers': {}})
            elif kind == 'bind_again':
                was = bound.get(h)
                if was is None:
                    ctx.emit('skipped', k=k, op=kind)
                else:
                    try:
                        was.bind()
                    except ValueError:
                        probe('second_bind_refused')
                    else:
                        fail('second-bind-accepted', f'dataset #{h}: bind() on an already bound dataset was accepted')
            elif kind == 'copy':
                how = op['how']
                if how == 'copy':
                    new = ds.copy()
                elif how == 'copy_deep':
                    new = ds.copy(deep=True)
                elif how == 'copy_module':
                    new = copy.copy(ds)
                elif how == 'deepcopy_module':
                    new = copy.deepcopy(ds)
                else:
                    new = pickle.loads(pickle.dumps(ds))
                nh = len(datasets)
                datasets.append(new)
                dataset_descs = list(dataset_descs)
                cur = state_conv(new)
                if how == 'pickle' and cur is not None:
                    probe('pickle_arrived_bound')
                    if cur is bound.get(h) or cur.dataset is not new:
                        fail('copy-independent', f'pickled copy of #{h} shares its convention with the original')
                    was_ = bound.get(h)
                    if was_ is not None:
                        try:
                            a_, b_ = sorted(map(str, was_.get_all_geometry_names())), sorted(map(str, cur.get_all_geometry_names()))
                        except Exception:
                            a_ = b_ = None
                        if type(cur) is not type(was_) or a_ != b_:
                            fail('copy-bound-differently', f'pickled copy of #{h} arrives bound to {type(cur).__name__} on {b_}, the original is bound to {type(was_).__name__} on {a_}')
                    bound[nh] = cur
                elif cur is not None:
                    fail('copy-independent', f'{how} of dataset #{h} arrived already bound to {type(cur).__name__} (shared state)')
                    bound[nh] = cur
                if bound.get(h) is not None:
                    probe('copy_of_bound_dataset')
                # copies inherit the description for named-case purposes
                if h < len(dataset_descs):
                    dataset_descs.append(dataset_descs[h])
                    mutated[nh] = mutated.get(h, 0)
                else:
                    dataset_descs.append({'world': None, 'mut': None, 'markers': {}})
            elif kind == 'derive':
                how = op['how']
                if how == 'assign_attrs':
                    new = ds.assign_attrs(note='derived')
                elif how == 'isel':
                    dim = sorted(ds.sizes)[0] if ds.sizes else None
                    new = ds.isel({dim: slice(0, None)}) if dim else ds.assign_attrs(note='derived')
                    # xarray's isel() hands the *same* attrs dict to the new dataset; a later in-place edit of one
                    # would silently edit the other.  That aliasing is xarray's, not the property's: detach it.
                    new.attrs = dict(new.attrs)
                elif how == 'reorder':
                    # the same variables in another order: the same content
                    import xarray
                    new = xarray.Dataset(
                        data_vars={n: ds.variables[n] for n in list(ds.data_vars)[::-1]},
                        coords={n: ds.variables[n] for n in list(ds.coords)[::-1]},
                        attrs=dict(ds.attrs))
                    try:
                        a, b = emsarray.get_dataset_convention(new), emsarray.get_dataset_convention(ds)
                    except KeyError:
                        a = b = None
                    ambiguous = h < len(dataset_descs) and dataset_descs[h].get('mut') == 'projected_axes'
                    if ambiguous:
                        # a dataset that offers *two* sets of grid coordinates (1-D axes and 2-D latitude / longitude): emsarray
                        # takes the first it meets, so the order of the variables is part of what decides -- order is content
                        # too, the statement does not promise otherwise
                        probe('reorder_of_ambiguous_dataset_not_judged')
                    elif a is not b:
                        fail('content-alone', f'dataset #{h}: the same variables in another order are detected as {a}, originally {b}')
                    probe('reordered_variables_detected')
                else:
                    new = ds.assign_attrs()
                    new.attrs.pop('title', None)
                nh = len(datasets)
                datasets.append(new)
                dataset_descs = list(dataset_descs)
                dataset_descs.append(dataset_descs[h] if h < len(dataset_descs) else {'world': None, 'mut': None, 'markers': {}})
                mutated[nh] = mutated.get(h, 0)
                if how == 'reorder' and h < len(dataset_descs) and dataset_descs[h].get('mut') == 'projected_axes':
                    mutated[nh] = mutated[nh] + 1      # not the dataset its description rebuilds: the order differs, and here order decides
                if state_conv(new) is not None:
                    fail('copy-independent', f'derived dataset ({how}) of #{h} arrived bound')
            elif kind == 'mutate':
                how = op['how']
                if how == 'pop_conventions':
                    ds.attrs.pop('Conventions', None)
                elif how == 'pop_markers':
                    for m in list(syn):
                        ds.attrs.pop(m, None)
                elif how == 'pop_ems_version':
                    ds.attrs.pop('ems_version', None)
                elif how == 'add_variable':
                    # ordinary xarray use of a dataset that may be bound already: a new variable assigned in place
                    ds['extra_scalar'] = ((), 1.5)
                    probe('variable_added_in_place')
                elif how == 'drop_variable_in_place':
                    if 'extra_scalar' in ds.variables:
                        del ds['extra_scalar']
                else:
                    ds.attrs['history'] = 'edited'
                mutated[h] = mutated.get(h, 0) + 1
                if bound.get(h) is not None:
                    probe('content_changed_while_bound')
        except Exception as e:
            info = observe.exc_info(e)
            fail('op-raised', f'{kind} raised {info["exc"]}: {info["msg"]}', frame=info['frame'])
        check_invariants()


ENGINE = BindSim()
