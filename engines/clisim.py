"""
clisim - C20: the command line as a system: argv in, files + exit status + stderr out, a temp
directory, global logging state.  Invocations run in forked lifetimes through
emsarray.cli.main(argv); the simulator owns argv, the files on disk (user faults with real files),
storage faults, crashes mid-command followed by the re-run the user would perform (same argv, same
--work_dir with the crashed run's files, same half-written output), and several invocations in
one process.  The oracle is the corresponding library call executed in its own process.
"""
from __future__ import annotations

import copy
import json
import os
import re
import shutil
import subprocess
import sys

import numpy

from sim import lifetimes, observe, seams, worldgen
from . import clipsim, common, exportsim

FORMAT_EXT = {'geojson': ['.geojson', '.json'], 'wkt': ['.wkt'], 'wkb': ['.wkb'], 'shapefile': ['.shp']}
USER_FAULTS = {
    'clip': ['missing_input', 'not_netcdf', 'truncated_input', 'geom_file_missing', 'geom_file_bad_ext', 'geom_file_bad_json',
             'geom_file_not_geojson', 'geom_bad_geojson_string', 'out_parent_missing', 'out_parent_is_file', 'geom_garbage'],
    'extract-points': ['missing_input', 'not_netcdf', 'csv_missing', 'csv_no_columns', 'points_outside_error', 'out_parent_missing',
                       'bad_policy'],
    'export-geometry': ['missing_input', 'not_netcdf', 'unknown_format', 'unguessable_extension', 'out_parent_missing', 'out_parent_is_file'],
}

# independent strict grammar for bounds (documented in cli/utils.py): four comma separated decimal numbers
_NUM = r'\d+(?:_\d+)*'
_DEC = rf'-?(?:{_NUM}\.{_NUM}|{_NUM}\.|\.{_NUM}|{_NUM})'
STRICT_BOUNDS = re.compile(rf'({_DEC})\s*,\s*({_DEC})\s*,\s*({_DEC})\s*,\s*({_DEC})')


def strict_bounds(s):
    m = STRICT_BOUNDS.fullmatch(s)
    if not m:
        return None
    return [float(g.replace('_', '')) for g in m.groups()]


def gen_number(rng):
    style = rng.choice(['int', 'dec', 'lead', 'trail', 'under', 'neg'])
    a, b = rng.randint(0, 180), rng.randint(0, 999999)
    if style == 'int':
        s = f'{a}'
    elif style == 'dec':
        s = f'{a}.{b}'
    elif style == 'lead':
        s = f'.{b}'
    elif style == 'trail':
        s = f'{a}.'
    elif style == 'under':
        s = f'{a}_{rng.randint(0, 999):03d}.{b}'
    else:
        s = f'-{a}.{b}'
    if rng.random() < 0.3 and not s.startswith('-'):
        s = '-' + s
    return s


def gen_bounds_string(rng):
    """-> (string, class) class in {'bounds', 'not_bounds', 'open'}"""
    nums = [gen_number(rng) for _ in range(4)]
    sep = lambda: rng.choice([',', ',', ', ', ' ,', ' , '])  # noqa: E731
    good = nums[0] + sep() + nums[1] + sep() + nums[2] + sep() + nums[3]
    kind = rng.choice(['good', 'good', 'good', 'good_ws', 'five', 'three', 'junk_tail', 'junk_field', 'exponent', 'ws_lead', 'ws_trail', 'semicolon', 'double_comma', 'plus',
                       'inner_space', 'inner_space', 'space_separated'])
    if kind == 'good':
        return good, 'bounds'
    if kind == 'good_ws':
        ws = lambda: rng.choice([' ', '  ', '\t', ''])  # noqa: E731
        return nums[0] + ws() + ',' + ws() + nums[1] + ws() + ',' + ws() + nums[2] + ws() + ',' + ws() + nums[3], 'bounds'
    if kind == 'inner_space':
        # white space *inside* a field: '1 0,2,3,4' is not four numbers
        k = rng.randrange(4)
        n = nums[k]
        pos = rng.randint(1, max(1, len(n) - 1))
        nums2 = nums[:]
        nums2[k] = n[:pos] + rng.choice([' ', '\t']) + n[pos:]
        if len(n) < 2:
            nums2[k] = n + ' 0'
        return ','.join(nums2), 'not_bounds'
    if kind == 'space_separated':
        return ' '.join(nums), 'not_bounds'
    if kind == 'five':
        return good + ',' + gen_number(rng), 'not_bounds'
    if kind == 'three':
        return ','.join(nums[:3]), 'not_bounds'
    if kind == 'junk_tail':
        return good + rng.choice(['xyz', 'e', 'deg', ')', ';1']), 'not_bounds'
    if kind == 'junk_field':
        k = rng.randrange(3)
        nums2 = nums[:]
        nums2[k] = nums2[k] + rng.choice(['x', 'deg', "'"])
        return ','.join(nums2), 'not_bounds'
    if kind == 'exponent':
        nums2 = nums[:]
        nums2[3] = nums2[3].rstrip('.') + 'e1'
        return ','.join(nums2), 'not_bounds'
    if kind == 'ws_lead':
        return ' ' + good, 'open'
    if kind == 'ws_trail':
        return good + ' ', 'open'
    if kind == 'semicolon':
        return ';'.join(nums), 'not_bounds'
    if kind == 'double_comma':
        return nums[0] + ',,' + ','.join(nums[1:]), 'not_bounds'
    return '+' + good, 'not_bounds'


class CliSim:
    name = 'clisim'
    properties = ['C20']

    def budget(self, prop, tier):
        return {'quick': {'runs': 700, 'seconds': 55}, 'thorough': {'runs': 40000, 'seconds': 780}}[tier]

    def rule(self, prop):
        return ('plans drawn from VERIF_SEED: world written to disk (every convention) x 1-3 process lifetimes x 1-3 invocations each of '
                'clip / extract-points / export-geometry through emsarray.cli.main(argv) (a sample through a real `python -m emsarray` '
                'subprocess) plus direct grammar probes of geometry_argument / bounds_argument; argv varies bounds strings (signs, decimals, '
                'underscores, spaces, near misses), GeoJSON strings and files, CSV tables mixing hits / vertex hits / misses with each '
                '--missing-points policy and custom column / dimension names, each export format explicit or guessed; user faults with real '
                'files; storage faults at write / open_mfdataset / r+ reopen / text writes / temp dir creation; SIGTERM or crash mid-command then the '
                're-run with leftover --work_dir and half-written output; repeated invocations in one process. Oracle = the library call in '
                'its own process. Non-trivial = an invocation exited 0 and its output was compared with the library result, or a user fault '
                'was judged. Distinct = distinct (convention, per-lifetime (command, argv shape, user fault, fired faults, status) sequence).')

    def real_vs_stub(self):
        return {'real': ['emsarray.cli (argparse, logging config, handlers, commands) from the working tree', 'the library calls used as oracle', 'real files for every user fault',
                         'real `python -m emsarray` subprocess for sampled invocations'],
                'stub': ['tempfile as seen by emsarray.cli.commands.clip (deterministic names under the scratch root; creation can fail)',
                         'fault wrappers as in clipsim/exportsim', 'sys.stdout/sys.stderr redirected to files']}

    def assumptions(self, prop):
        return ['bounds strings with leading/trailing white space are generated but not judged (the statement leaves them open)',
                'root user: permission bits cannot produce faults, so unwritable outputs are modelled by a missing parent or a regular file as parent',
                'equality of netCDF outputs is judged on decoded variables, attributes and raw time units, not on bytes']

    # -- planning ------------------------------------------------------------------------
    def gen_plan(self, rng, tier):
        big = tier == 'thorough'
        world = worldgen.gen_world(rng, max_n=4 if big else 3, max_faces=8 if big else 5, max_vars=3, with_time=rng.random() < 0.6,
                                   materialise='file', allow_perm=rng.random() < 0.5)
        lts = []
        n_out = [0]

        def out_name(ext):
            n_out[0] += 1
            return f'cli{n_out[0]}{ext}'

        for li in range(rng.choice([1, 1, 2, 3])):
            invs = []
            for _ in range(rng.choice([1, 1, 2, 3])):
                cmd = rng.choice(['clip', 'clip', 'extract-points', 'export-geometry', 'grammar'])
                inv = {'cmd': cmd, 'faults': [], 'user_fault': None, 'verbosity': rng.choice([None, None, '-v', '-q', '-vv'])}
                if cmd == 'grammar':
                    s, cls = gen_bounds_string(rng)
                    inv.update({'string': s, 'class': cls, 'fn': rng.choice(['geometry_argument', 'bounds_argument'])})
                    invs.append(inv)
                    continue
                if rng.random() < 0.3:
                    inv['user_fault'] = rng.choice(USER_FAULTS[cmd])
                if cmd == 'clip':
                    g = clipsim.gen_geometry(rng, world)
                    form = rng.choice(['bounds', 'bounds', 'geojson_string', 'geojson_file', 'json_file', 'shared_file', 'shared_file',
                                       'feature_string', 'feature_collection_string', 'feature_collection_file'])
                    earlier = [i['work_dir'] for lt_ in lts for i in lt_['invocations'] if i.get('work_dir')] + [i['work_dir'] for i in invs if i.get('work_dir')]
                    if earlier and rng.random() < 0.6:
                        wd = rng.choice(earlier)      # the scratch directory of an earlier run, with whatever it left behind
                    else:
                        wd = rng.choice([None, None, f'cliwork{len(lts)}_{len(invs)}', 'cliwork_shared'])
                    inv.update({'geom': g, 'geom_form': form, 'out': out_name('.nc'), 'work_dir': wd,
                                # a second input with fewer variables: with a shared --work_dir an earlier run's
                                # per-variable files for the dropped variables are still lying around
                                'input': rng.choice(['full', 'full', 'small']) if len(world['vars']) > 1 else 'full'})
                    if wd and not inv['user_fault'] and rng.random() < 0.25:
                        inv['out_in_work_dir'] = True     # one job directory holds the scratch files and the result
                    if form == 'bounds':
                        pts, bbox = clipsim.cell_points(world)
                        real = [p for p in pts if p is not None] or [(bbox[0], bbox[1])]
                        p, q = rng.choice(real), rng.choice(real)
                        x0, x1 = sorted([round(p[0] - rng.uniform(0, 1), 4), round(q[0] + rng.uniform(0, 1), 4)])
                        y0, y1 = sorted([round(p[1] - rng.uniform(0, 1), 4), round(q[1] + rng.uniform(0, 1), 4)])
                        sep = rng.choice([',', ', ', ' , '])
                        inv['bounds_string'] = sep.join(self._fmt(rng, v) for v in (x0, y0, x1, y1))
                        # argparse takes a bounds string with a leading '-' for an option unless the user writes `--` first
                        inv['dashdash'] = inv['bounds_string'].startswith('-') and rng.random() < 0.6
                elif cmd == 'extract-points':
                    pts, bbox = clipsim.cell_points(world)
                    real = [p for p in pts if p is not None]
                    rows = []
                    for _ in range(rng.randint(1, 5)):
                        r = rng.random()
                        if r < 0.6 and real:
                            p = rng.choice(real)
                            rows.append([p[0], p[1], rng.choice(['hit', 'hit', 'mooring #3', 'site A#', '#1 buoy', 'Île aux Cygnes', 'Bahía 3'])])
                        elif r < 0.75:
                            w = worldgen.World(world)
                            polys = [pp for pp in (w.polygons() or []) if pp is not None]
                            if polys:
                                v = rng.choice(rng.choice(polys))
                                rows.append([v[0], v[1], 'vertex'])
                            elif real:
                                p = rng.choice(real)
                                rows.append([p[0], p[1], 'hit'])
                        elif r < 0.92:
                            rows.append([bbox[2] + rng.uniform(5, 9), bbox[3] + rng.uniform(5, 9), 'miss'])
                        else:
                            rows.append([None, None, ''])     # an all-empty CSV row: a point at (NaN, NaN), which misses
                    if rng.random() < 0.06:
                        # a long table: the number of points outside the model is a multiple of 256 (an exit status has 8 bits)
                        n_miss = sum(1 for r_ in rows if r_[2] in ('miss', ''))
                        for j_ in range(rng.choice([256, 256, 512]) - n_miss):
                            rows.insert(rng.randint(0, len(rows)), [bbox[2] + 5 + 0.01 * j_, bbox[3] + rng.uniform(5, 9), 'miss'])
                    cols = rng.choice([['lon', 'lat'], ['lon', 'lat'], ['x_pos', 'y_pos']])
                    inv.update({'rows': rows, 'cols': cols, 'policy': rng.choice([None, 'error', 'drop', 'fill']),
                                'dim': rng.choice([None, None, 'station']), 'out': out_name('.nc')})
                    if rng.random() < 0.2:
                        labels_ = list(range(len(rows) + 1))
                        rng.shuffle(labels_)
                        inv['row_labels'] = labels_
                else:
                    fmt = rng.choice(list(FORMAT_EXT))
                    explicit = rng.random() < 0.5
                    if not explicit or rng.random() < 0.5:
                        ext = rng.choice(FORMAT_EXT[fmt])
                    elif rng.random() < 0.5:
                        ext = rng.choice(['.dat', '.out'])
                    else:
                        # an explicit --format must win over whatever the extension suggests
                        other = rng.choice([f for f in FORMAT_EXT if f != fmt])
                        ext = rng.choice(FORMAT_EXT[other])
                    inv.update({'fmt': fmt, 'explicit': explicit, 'out': out_name(ext)})
                if inv['user_fault'] is None and rng.random() < 0.3:
                    inv['faults'] = self._storage_fault(rng, cmd, inv)
                    if inv['faults']:
                        invs.append(inv)
                        # the re-run the user would perform: same argv, same work dir, same output path
                        inv = dict(copy.deepcopy(inv), faults=[], rerun=True)
                invs.append(inv)
            lts.append({'invocations': invs, 'subprocess': rng.random() < (0.03 if not big else 0.01),
                        # the environment of that real process: sometimes a plain C locale without UTF-8 mode
                        'subprocess_ascii_locale': rng.random() < 0.5})
        return {'engine': self.name, 'world': world, 'lifetimes': lts, 'env': {'file_cache_maxsize': rng.choice([1, 2, 128, 128])}}

    @staticmethod
    def _fmt(rng, v):
        s = repr(float(v))
        if rng.random() < 0.2 and abs(v) >= 1000:
            s = s
        return s

    def _storage_fault(self, rng, cmd, inv):
        if cmd == 'clip':
            seam = rng.choice(['write', 'write', 'mfopen', 'ncfix.open', 'tmp'])
            if seam == 'write':
                return [{'seam': 'write', 'nth': rng.choice([1, 2, 3, 4, 6]), 'kind': rng.choice(['ENOSPC', 'EIO', 'partial', 'crash', 'crash_after', 'sigterm'])}]
            if seam == 'mfopen':
                return [{'seam': 'mfopen', 'nth': 1, 'kind': rng.choice(['EIO', 'crash'])}]
            if seam == 'tmp':
                return [{'seam': 'tmp', 'nth': 1, 'kind': 'ENOSPC'}] if inv.get('work_dir') is None else []
            return [{'seam': 'ncfix.open', 'nth': 1, 'kind': rng.choice(['EACCES', 'crash'])}]
        if cmd == 'extract-points':
            return [{'seam': 'write', 'nth': 1, 'kind': rng.choice(['ENOSPC', 'partial', 'crash', 'crash_after', 'sigterm'])}]
        return [{'seam': rng.choice(['fwrite', 'fwrite', 'fopen', 'fclose']), 'nth': rng.choice([1, 1, 2, 4]), 'kind': rng.choice(['ENOSPC', 'EIO', 'crash'])}]

    def shrink(self, plan):
        if len(plan['lifetimes']) > 1:
            for k in reversed(range(len(plan['lifetimes']))):
                p = copy.deepcopy(plan)
                del p['lifetimes'][k]
                yield p
        for li, lt in enumerate(plan['lifetimes']):
            for k in reversed(range(len(lt['invocations']))):
                if len(lt['invocations']) > 1:
                    p = copy.deepcopy(plan)
                    del p['lifetimes'][li]['invocations'][k]
                    yield p
            for k, inv in enumerate(lt['invocations']):
                for fi in range(len(inv.get('faults') or [])):
                    p = copy.deepcopy(plan)
                    del p['lifetimes'][li]['invocations'][k]['faults'][fi]
                    yield p
                if inv.get('verbosity'):
                    p = copy.deepcopy(plan)
                    p['lifetimes'][li]['invocations'][k]['verbosity'] = None
                    yield p
                if inv.get('rows') and len(inv['rows']) > 1:
                    for r in range(len(inv['rows'])):
                        p = copy.deepcopy(plan)
                        del p['lifetimes'][li]['invocations'][k]['rows'][r]
                        yield p
                if inv.get('work_dir'):
                    p = copy.deepcopy(plan)
                    p['lifetimes'][li]['invocations'][k]['work_dir'] = None
                    yield p
            if lt.get('subprocess'):
                p = copy.deepcopy(plan)
                p['lifetimes'][li]['subprocess'] = False
                yield p
        yield from common.shrink_world_in_plan(plan)

    def predicate(self, pred, plan, v):
        return True

    # -- argv construction -----------------------------------------------------------------
    def build(self, inv, scratch, world_spec):
        """-> (argv, prepared files) ; files are created by the parent (plain bytes / text, never netCDF)."""
        inp = os.path.join(scratch, 'input.nc')
        uf = inv.get('user_fault')
        argv = []
        if inv.get('verbosity'):
            argv.append(inv['verbosity'])
        cmd = inv['cmd']
        argv.append(cmd)
        input_path = inp if inv.get('input', 'full') == 'full' else os.path.join(scratch, 'input_small.nc')
        if uf == 'missing_input':
            input_path = os.path.join(scratch, 'no_such_input.nc')
        elif uf == 'not_netcdf':
            input_path = os.path.join(scratch, 'not_netcdf.nc')
            with open(input_path, 'w') as f:
                f.write('this is not a netCDF file\n' * 20)
        elif uf == 'truncated_input':
            input_path = os.path.join(scratch, 'truncated.nc')
            data = open(inp, 'rb').read()
            with open(input_path, 'wb') as f:
                f.write(data[:max(16, len(data) // 3)])
        out = os.path.join(scratch, inv['out'])
        if inv.get('out_in_work_dir') and inv.get('work_dir'):
            out = os.path.join(scratch, inv['work_dir'], inv['out'])
        if uf == 'out_parent_missing':
            out = os.path.join(scratch, 'no_such_dir', inv['out'])
        elif uf == 'out_parent_is_file':
            blocker = os.path.join(scratch, 'a_regular_file')
            with open(blocker, 'w') as f:
                f.write('x')
            out = os.path.join(blocker, inv['out'])
        if cmd == 'clip':
            geom_arg = self._geom_arg(inv, scratch)
            if uf == 'geom_file_missing':
                geom_arg = os.path.join(scratch, 'no_such_geometry.geojson')
            elif uf == 'geom_file_bad_ext':
                geom_arg = os.path.join(scratch, 'geometry.txt')
                with open(geom_arg, 'w') as f:
                    f.write(json.dumps(_geojson_of(inv['geom']['wkt'])))
            elif uf == 'geom_file_bad_json':
                geom_arg = os.path.join(scratch, 'broken.geojson')
                with open(geom_arg, 'w') as f:
                    f.write('{"type": "Polygon", "coordinates": [[[')
            elif uf == 'geom_file_not_geojson':
                geom_arg = os.path.join(scratch, 'notgeo.json')
                with open(geom_arg, 'w') as f:
                    f.write('{"not": "geojson"}')
            elif uf == 'geom_bad_geojson_string':
                geom_arg = '{"type": "Polygon", "coordinates": "nope"}'
            elif uf == 'geom_garbage':
                geom_arg = 'definitely not a geometry'
            if inv.get('work_dir'):
                wd = os.path.join(scratch, inv['work_dir'])
                os.makedirs(wd, exist_ok=True)
                argv += ['--work_dir', wd]
            if inv.get('dashdash'):
                argv += ['--']
            argv += [input_path, geom_arg, out]
        elif cmd == 'extract-points':
            csv = os.path.join(scratch, inv['out'] + '.points.csv')
            cols = inv['cols']
            if uf == 'csv_no_columns':
                header = ['a', 'b', 'name']
            else:
                header = [cols[0], cols[1], 'name']
            rows = [list(r) for r in inv['rows']]
            if uf == 'points_outside_error':
                base = next((r for r in rows if r[0] is not None), [0.0, 0.0, ''])
                rows.append([base[0] + 500.0, base[1] + 500.0, 'miss'])
            labels = inv.get('row_labels')      # a table written by DataFrame.to_csv(): an unnamed first column of row labels
            with open(csv, 'w', encoding='utf-8') as f:
                f.write((',' if labels else '') + ','.join(header) + '\n')
                for n_, r in enumerate(rows):
                    lead = f'{labels[n_ % len(labels)]},' if labels else ''
                    if r[0] is None:
                        f.write(lead + ',,\n')
                    else:
                        f.write(lead + f'{r[0]!r},{r[1]!r},{r[2]}\n')
            if uf == 'csv_missing':
                csv = os.path.join(scratch, 'no_such_points.csv')
            argv += [input_path, csv, out]
            if cols != ['lon', 'lat']:
                argv += ['-c', cols[0], cols[1]]
            if inv.get('dim'):
                argv += ['-d', inv['dim']]
            policy = inv.get('policy')
            if uf == 'points_outside_error':
                policy = rng_choice_error(inv)
            if uf == 'bad_policy':
                argv += ['--missing-points', 'ignore']
            elif policy:
                argv += ['--missing-points', policy]
        else:
            if uf == 'unguessable_extension':
                out = os.path.splitext(out)[0] + '.dat'
                argv += [input_path, out]
            else:
                argv += [input_path, out]
                if uf == 'unknown_format':
                    argv += ['-f', 'dxf']
                elif inv['explicit']:
                    argv += ['-f', inv['fmt']]
        return argv, out

    def _geom_arg(self, inv, scratch):
        form = inv['geom_form']
        if form == 'bounds':
            return inv['bounds_string']
        gj = json.dumps(_geojson_of(inv['geom']['wkt']))
        if form == 'geojson_string':
            return gj
        if form == 'feature_string':
            return json.dumps({'type': 'Feature', 'properties': {'name': 'region'}, 'geometry': _geojson_of(inv['geom']['wkt'])})
        if form in ('feature_collection_string', 'feature_collection_file'):
            # two features: whatever the library makes of a FeatureCollection, the command line must make the same of it
            geom = _geojson_of(inv['geom']['wkt'])
            other = {'type': 'Point', 'coordinates': [500.0, 95.0]}
            fc = json.dumps({'type': 'FeatureCollection', 'features': [
                {'type': 'Feature', 'properties': {}, 'geometry': geom}, {'type': 'Feature', 'properties': {}, 'geometry': other}]})
            if form == 'feature_collection_string':
                return fc
            path = os.path.join(scratch, inv['out'] + '.fc.geojson')
            with open(path, 'w') as f:
                f.write(fc)
            return path
        if form == 'shared_file':
            # the user keeps one region file and edits it between runs: same argument text, other content
            path = os.path.join(scratch, 'region.geojson')
            inv['_pre_write'] = [path, gj]
            return path
        path = os.path.join(scratch, inv['out'] + ('.geom.geojson' if form == 'geojson_file' else '.geom.json'))
        with open(path, 'w') as f:
            f.write(gj)
        return path

    # -- execution -----------------------------------------------------------------------
    def run(self, plan, scratch, out):
        world = worldgen.World(plan['world'])
        res = lifetimes.run_lifetime(_setup_lifetime, plan['world'], scratch)
        if res['status'] != 'exit':
            out.harness_error = f'setup: {res["error"]}'
            return
        sig = []
        judged = False
        for li, lt in enumerate(plan['lifetimes']):
            prepared = []
            for inv in lt['invocations']:
                if inv['cmd'] == 'grammar':
                    prepared.append({'inv': inv})
                else:
                    inv = dict(inv)
                    argv, outp = self.build(inv, scratch, plan['world'])
                    prepared.append({'inv': inv, 'argv': argv, 'out': outp, 'pre_write': inv.pop('_pre_write', None)})
            # each invocation that carries a crash fault ends its lifetime; split accordingly
            groups, cur = [], []
            for p in prepared:
                shares = p['inv'].get('work_dir') and any(q['inv'].get('work_dir') == p['inv']['work_dir'] for q in cur)
                if (p['inv'].get('rerun') or shares) and cur:
                    # the user's re-run is a new process (it shares --work_dir and the output path with the failed run)
                    groups.append(cur)
                    cur = []
                cur.append(p)
                if any(f['kind'] in ('crash', 'crash_after', 'sigterm') for f in p['inv'].get('faults', [])):
                    groups.append(cur)
                    cur = []
            if cur:
                groups.append(cur)
            k = 0
            for group in groups:
                res = lifetimes.run_lifetime(_cli_lifetime, group, scratch, f'lt{li}g{k}', (plan.get('env') or {}).get('file_cache_maxsize', 128), timeout=240)
                if res['status'] in ('harness_error', 'timeout'):
                    out.harness_error = f'lifetime {li}: {res["error"]}'
                    return
                if len(group) > 1:
                    out.stats['probe.several_invocations_in_one_process'] += 1
                results = {}
                for kind, payload in res['events']:
                    pl = dict(payload)
                    out.event(kind, lt=li, **pl)
                    if kind == 'invocation':
                        results[payload['n']] = payload
                    elif kind == 'fault_fired':
                        out.stats[f"fault.{payload['seam']}.{payload['kind']}"] += 1
                out.event('lifetime_end', lt=li, status=res['status'])
                out.stats[f'end.{res["status"]}'] += 1
                for n, p in enumerate(group):
                    inv = p['inv']
                    r = results.get(n)
                    if r is None:
                        sig.append((inv['cmd'], 'crashed'))
                        continue
                    stderr = res['obs'].get(f'stderr{n}', '')
                    fired = r.get('fired', [])
                    sig.append((inv['cmd'], inv.get('geom_form') or inv.get('fmt') or inv.get('policy') or inv.get('class'), inv.get('user_fault'),
                                tuple((f['seam'], f['kind']) for f in fired), r.get('status'), bool(inv.get('rerun'))))
                    out.stats[f'cmd.{inv["cmd"]}'] += 1
                    if inv['cmd'] == 'grammar':
                        judged |= self._judge_grammar(out, inv, r, res['obs'].get(f'grammar{n}'))
                        continue
                    judged |= self._judge_invocation(out, world, plan, inv, p, r, stderr, fired, scratch, n > 0)
                    if lt.get('subprocess') and not fired and not inv.get('faults'):
                        self._cross_check_subprocess(out, p, r, scratch, ascii_locale=bool(lt.get('subprocess_ascii_locale')))
                k += 1
        out.signature = (world.conv, tuple(sig))
        out.nontrivial = {'C20': judged}
        out.stats['runs'] += 1
        out.stats[f'conv.{world.conv}'] += 1

    def _judge_grammar(self, out, inv, r, got):
        s, cls = inv['string'], inv['class']
        want = strict_bounds(s)
        out.stats[f'grammar.{cls}'] += 1
        if cls == 'open':
            return False
        is_box = got is not None and got.get('box') is not None
        if want is not None:
            if got is None or got.get('error') or not is_box:
                out.violate('C20', 'bounds-rejected', None, f'{inv["fn"]}({s!r}) is exactly four comma separated numbers but was not taken as bounds: {got}')
            elif [float(x) for x in got['box']] != [min(want[0], want[2]), min(want[1], want[3]), max(want[0], want[2]), max(want[1], want[3])] \
                    and [float(x) for x in got['box']] != want:
                out.violate('C20', 'bounds-wrong-box', None, f'{inv["fn"]}({s!r}) gave box {got["box"]}, expected {want}')
        else:
            if is_box:
                out.violate('C20', 'not-bounds-accepted', None,
                            f'{inv["fn"]}({s!r}) is not exactly four comma separated numbers but was taken as the box {got["box"]}')
        return True

    def _judge_invocation(self, out, world, plan, inv, p, r, stderr, fired, scratch, later_in_process):
        status = r['status']
        uf = inv.get('user_fault')
        label = f"{' '.join(os.path.basename(a) if os.sep in a else a for a in p['argv'])[:200]}"
        if uf:
            out.stats[f'user_fault.{uf}'] += 1
            if status == 0 and uf == 'out_parent_missing':
                out.stats['probe.missing_parent_created'] += 1   # falls through: the output must then be correct
            elif status == 0:
                out.violate('C20', f'user-fault-exit-0', None, f'user fault {uf}: `{label}` exited 0')
                return True
            elif not stderr.strip():
                out.violate('C20', 'user-fault-no-message', None, f'user fault {uf}: `{label}` exited {status} without any message')
                return True
            else:
                return True
        if fired:
            if status != 0:
                if not stderr.strip():
                    out.violate('C20', 'fault-no-message', None, f'storage fault {fired}: `{label}` exited {status} without any message')
                return False
            out.stats['probe.exit0_despite_fault'] += 1
        elif status != 0:
            # no fault of any kind: the library call decides whether failing is legitimate
            pass
        # reference: the library call, in its own process
        ref = lifetimes.run_lifetime(_reference_lifetime, inv, p, scratch, timeout=240)
        if ref['status'] != 'exit':
            out.harness_error = f'reference failed: {ref["error"]}'
            return False
        refres = ref['obs'].get('ref', {})
        if status != 0:
            if refres.get('raised'):
                out.stats['probe.cli_and_library_both_fail'] += 1
                if not stderr.strip():
                    out.violate('C20', 'failure-no-message', None, f'`{label}` exited {status} without any message')
                return True
            clause = 'cli-fails-library-succeeds'
            if inv['cmd'] == 'clip' and inv.get('geom_form') == 'bounds' and not uf and inv['bounds_string'].startswith('-') \
                    and not inv.get('dashdash') and status == 2 and 'rgument' in stderr:
                clause = 'bounds-leading-minus-rejected'
            out.violate('C20', clause, r.get('frame'), f'`{label}` exited {status} ({stderr.strip()[-300:]}) but the library call succeeds')
            return True
        if refres.get('raised'):
            out.violate('C20', 'cli-succeeds-library-fails', None, f'`{label}` exited 0 but the library call raises {refres["raised"]}')
            return True
        if inv.get('rerun'):
            out.stats['probe.rerun_after_fault_exit0'] += 1
        if later_in_process:
            out.stats['probe.later_invocation_in_process_judged'] += 1
        cmp_ = ref['obs'].get('compare')
        out.stats['outputs_compared'] += 1
        if cmp_ is None or cmp_.get('cli_missing'):
            out.violate('C20', 'exit-0-no-output', None, f'`{label}` exited 0 but wrote no (readable) output: {cmp_}')
        elif cmp_['differences']:
            out.violate('C20', f'output-differs-{inv["cmd"]}', None, f'`{label}`: output differs from the library result: {cmp_["differences"][:3]}')
        return True

    def _cross_check_subprocess(self, out, p, r, scratch, ascii_locale=False):
        env = dict(os.environ)
        if ascii_locale:
            env.update({'LC_ALL': 'C', 'LANG': 'C', 'PYTHONUTF8': '0', 'PYTHONCOERCECLOCALE': '0'})
            out.stats['probe.real_subprocess_in_ascii_locale'] += 1
        env['VERIF_NO_REEXEC'] = '1'
        # the production default (threaded dask over HDF5 with lock=False) races inside C libraries the simulator
        # does not control (emsarray issue #139); the cross-check validates the argv/exit-status seam, not that race
        env['DASK_SCHEDULER'] = 'synchronous'
        env['PYTHONHASHSEED'] = '0'
        env['TMPDIR'] = scratch      # the command's own TemporaryDirectory lands inside the run's scratch root
        real_out = p['out'] + '.subproc' + os.path.splitext(p['out'])[1]
        argv = [a if a != p['out'] else real_out for a in p['argv']]
        proc = subprocess.run([sys.executable, '-m', 'emsarray'] + argv, capture_output=True, text=True, env=env, cwd=scratch, timeout=300)
        out.stats['probe.real_subprocess_cross_check'] += 1
        if (proc.returncode == 0) != (r['status'] == 0):
            out.violate('C20', 'in-process-seam-unfaithful' if not ascii_locale else 'differs-in-ascii-locale', None,
                        f'python -m emsarray {"(LC_ALL=C, no UTF-8 mode) " if ascii_locale else ""}exited {proc.returncode}, emsarray.cli.main(argv) in-process gave {r["status"]}: {proc.stderr[-300:]}')
        out.event('subprocess', rc=proc.returncode)


def rng_choice_error(inv):
    return inv.get('policy') if inv.get('policy') in (None, 'error') else 'error'


def _geojson_of(wkt):
    import shapely
    import shapely.geometry
    return shapely.geometry.mapping(shapely.from_wkt(wkt))


# ----------------------------------------------------------------------------------------
# lifetimes
# ----------------------------------------------------------------------------------------

def _setup_lifetime(ctx, world_spec, scratch):
    world = worldgen.World(world_spec)
    common.write_world_file(world, os.path.join(scratch, 'input.nc'))
    if len(world_spec['vars']) > 1:
        small = dict(world_spec, vars=world_spec['vars'][:1])
        common.write_world_file(worldgen.World(small), os.path.join(scratch, 'input_small.nc'))


class _TempfileShim:
    """tempfile as seen by emsarray.cli.commands.clip: deterministic names under the scratch root."""

    def __init__(self, ctl, scratch, tag):
        self.ctl, self.scratch, self.tag, self.n = ctl, scratch, tag, 0

    def TemporaryDirectory(self, *args, **kwargs):
        import tempfile
        f = self.ctl.cross('tmp')
        if f is not None:
            raise seams.make_oserror(f['kind'], 'TemporaryDirectory')
        self.n += 1
        return tempfile.TemporaryDirectory(prefix=f'emsarray-clip.{self.tag}.{self.n}.', dir=self.scratch)

    def __getattr__(self, name):
        import tempfile
        return getattr(tempfile, name)


def _cli_lifetime(ctx, group, scratch, tag, file_cache_maxsize=128):
    import pathlib

    import xarray
    xarray.set_options(file_cache_maxsize=file_cache_maxsize)

    import emsarray.cli
    import emsarray.cli.commands.clip as clip_cmd
    import emsarray.cli.utils as cli_utils
    import emsarray.operations.geometry as geometry
    ctx.full_flush = True
    ctl = seams.FaultController(ctx)
    seams.install_xarray_seams(ctl)
    seams.install_ncfix_seam(ctl)
    seams.install_fopen_seam(ctl, geometry)
    faulty_open = geometry.open
    real_path_open = pathlib.Path.open

    def path_open(self, mode='r', *args, **kwargs):
        if any(c in mode for c in 'wax+') and str(self).startswith(scratch) and not str(self).endswith(('.stderr', '.stdout')):
            return faulty_open(str(self), mode, *args, **kwargs)
        return real_path_open(self, mode, *args, **kwargs)

    pathlib.Path.open = path_open
    clip_cmd.tempfile = _TempfileShim(ctl, scratch, tag)
    os.chdir(scratch)
    for n, p in enumerate(group):
        inv = p['inv']
        if inv['cmd'] == 'grammar':
            fn = getattr(cli_utils, inv['fn'])
            try:
                g = fn(inv['string'])
                box = None
                if g.geom_type == 'Polygon' and 4 <= len(g.exterior.coords) <= 5:
                    # an axis-aligned rectangle, possibly of zero width or height ('39,16.9,39,-119' is four numbers too)
                    x0_, y0_, x1_, y1_ = g.bounds
                    if all(cx in (x0_, x1_) and cy in (y0_, y1_) for cx, cy in g.exterior.coords):
                        box = list(g.bounds)
                ctx.observe(f'grammar{n}', {'box': box, 'type': g.geom_type})
                ctx.emit('invocation', n=n, cmd='grammar', status=0 if box else 1, accepted_as_box=box is not None)
            except Exception as e:
                ctx.observe(f'grammar{n}', {'error': type(e).__name__})
                ctx.emit('invocation', n=n, cmd='grammar', status=2, accepted_as_box=False)
            continue
        if p.get('pre_write'):
            with open(p['pre_write'][0], 'w') as fh:
                fh.write(p['pre_write'][1])
        err_path = os.path.join(scratch, f'{tag}.{n}.stderr')
        out_path = os.path.join(scratch, f'{tag}.{n}.stdout')
        old = sys.stdout, sys.stderr
        status = None
        frame = None
        ctl.begin_op(inv['cmd'], inv.get('faults'))
        with open(err_path, 'w') as ferr, open(out_path, 'w') as fout:
            sys.stdout, sys.stderr = fout, ferr
            try:
                emsarray.cli.main(p['argv'])
                status = 0
            except SystemExit as e:
                # what the parent of a real process sees: the low 8 bits of an integer status
                status = (e.code & 0xFF) if isinstance(e.code, int) else (0 if e.code is None else 1)
            except BaseException as e:   # an exception escaping main() would be a traceback + exit 1 for the user
                status = 1
                frame = observe.exc_frame(e)[1]
                ferr.write(f'{type(e).__name__}: {e}\n')
            finally:
                sys.stdout, sys.stderr = old
        fired, unfired, counts = ctl.end_op()
        ctx.observe(f'stderr{n}', open(err_path).read()[-4000:])
        ctx.emit('invocation', n=n, cmd=inv['cmd'], status=status, fired=fired, frame=frame,
                 unfired=[(f['seam'], f['kind']) for f in unfired], stderr_empty=os.path.getsize(err_path) == 0)


def _compare_netcdf(cli_path, ref_path):
    import netCDF4
    import xarray
    diffs = []
    if not os.path.exists(cli_path):
        return {'cli_missing': True, 'differences': ['missing']}
    try:
        a = xarray.open_dataset(cli_path)
        b = xarray.open_dataset(ref_path)
    except Exception as e:
        return {'cli_missing': True, 'differences': [f'unreadable: {type(e).__name__}']}
    try:
        oa, ob = observe.observe_dataset(a, convention=True), observe.observe_dataset(b, convention=True)
    finally:
        a.close()
        b.close()
    if sorted(oa['vars']) != sorted(ob['vars']):
        diffs.append(f'variables {sorted(oa["vars"])} vs {sorted(ob["vars"])}')
    if oa['sizes'] != ob['sizes']:
        diffs.append(f'sizes {oa["sizes"]} vs {ob["sizes"]}')
    if oa.get('convention') != ob.get('convention'):
        diffs.append(f'convention {oa.get("convention")} vs {ob.get("convention")}')
    if oa['attrs'] != ob['attrs']:
        diffs.append('global attributes differ')
    for name in sorted(set(oa['vars']) & set(ob['vars'])):
        va, vb = oa['vars'][name], ob['vars'][name]
        if va['dims'] != vb['dims']:
            diffs.append(f'{name}: dims {va["dims"]} vs {vb["dims"]}')
        elif not common.arrays_equal_nan(va['values'], vb['values']) if numpy.asarray(va['values']).dtype.kind != 'O' else \
                numpy.asarray(va['values']).tolist() != numpy.asarray(vb['values']).tolist():
            diffs.append(f'{name}: values differ')
        elif va['attrs'] != vb['attrs']:
            diffs.append(f'{name}: attributes differ')
        elif va['dtype'] != vb['dtype']:
            diffs.append(f'{name}: dtype {va["dtype"]} vs {vb["dtype"]}')
    for path, store in ((cli_path, 'a'), (ref_path, 'b')):
        pass
    na, nb = netCDF4.Dataset(cli_path), netCDF4.Dataset(ref_path)
    try:
        for name in na.variables:
            if name in nb.variables:
                ua = getattr(na.variables[name], 'units', None)
                ub = getattr(nb.variables[name], 'units', None)
                if ua != ub:
                    diffs.append(f'{name}: raw units {ua!r} vs {ub!r}')
                if ('_FillValue' in na.variables[name].ncattrs()) != ('_FillValue' in nb.variables[name].ncattrs()):
                    diffs.append(f'{name}: _FillValue attribute presence differs')
    finally:
        na.close()
        nb.close()
    return {'differences': diffs}


def _reference_lifetime(ctx, inv, p, scratch):
    """The library call for the same inputs, then the comparison with what the CLI wrote."""
    import pandas
    import shapely
    import shapely.geometry
    import xarray

    import emsarray
    from emsarray.operations import geometry as geometry_ops
    from emsarray.operations import point_extraction
    from emsarray.utils import to_netcdf_with_fixes
    cmd = inv['cmd']
    argv = p['argv']
    if p.get('pre_write'):
        with open(p['pre_write'][0], 'w') as fh:
            fh.write(p['pre_write'][1])
    pos = [a for a in argv if not a.startswith('-')]
    ref_out = p['out'] + '.ref' + os.path.splitext(p['out'])[1]
    result = {}
    try:
        if cmd == 'clip':
            input_path, geom_arg, _ = argv[-3], argv[-2], argv[-1]
            sb = strict_bounds(geom_arg)
            if sb is not None:
                geom = shapely.geometry.box(*sb)
            elif os.path.exists(geom_arg):
                geom = shapely.geometry.shape(json.load(open(geom_arg)))
            else:
                geom = shapely.geometry.shape(json.loads(geom_arg))
            ds = emsarray.open_dataset(input_path)
            wd = ref_out + '.work'
            os.makedirs(wd, exist_ok=True)
            clipped = ds.ems.clip(geom, work_dir=wd)
            clipped.ems.to_netcdf(ref_out)
            result['geometry'] = geom.wkt
        elif cmd == 'extract-points':
            i = argv.index('extract-points')
            input_path, csv = argv[i + 1], argv[i + 2]
            ds = emsarray.open_dataset(input_path)
            df = pandas.read_csv(csv)
            kwargs = {}
            if inv.get('dim'):
                kwargs['point_dimension'] = inv['dim']
            policy = 'error'
            if '--missing-points' in argv:
                policy = argv[argv.index('--missing-points') + 1]
            data = point_extraction.extract_dataframe(ds, df, tuple(inv['cols']), missing_points=policy, **kwargs)
            try:
                tname = ds.ems.time_coordinate.name
            except KeyError:
                tname = None
            to_netcdf_with_fixes(data, ref_out, time_variable=tname)
        else:
            i = argv.index('export-geometry')
            input_path = argv[i + 1]
            ds = emsarray.open_dataset(input_path)
            fmt = inv['fmt']
            writer = {'geojson': geometry_ops.write_geojson, 'shapefile': geometry_ops.write_shapefile,
                      'wkt': geometry_ops.write_wkt, 'wkb': geometry_ops.write_wkb}[fmt]
            if not inv['explicit']:
                ext = os.path.splitext(p['out'])[1]
                if ext not in FORMAT_EXT[fmt]:
                    raise ValueError('extension does not identify a format')
            writer(ds, ref_out)
    except Exception as e:
        result['raised'] = f'{type(e).__name__}: {str(e)[:200]}'
        ctx.observe('ref', result)
        return
    ctx.observe('ref', result)
    if cmd in ('clip', 'extract-points'):
        ctx.observe('compare', _compare_netcdf(p['out'], ref_out))
    else:
        fmt = inv['fmt']

        def parse(path):
            step = {'fmt': fmt, 'name': 'x'}
            base = os.path.splitext(path)[0]
            holder = {}

            class _C:
                def observe(self, k, v):
                    holder[k] = v
            # reuse exportsim's independent readers on an explicit path
            real_paths = exportsim._paths
            exportsim._paths = lambda step_, scratch_: (base, path)
            try:
                exportsim._readback_lifetime(_C(), step, scratch)
            finally:
                exportsim._paths = real_paths
            return holder['readback']
        exists = os.path.exists(p['out']) if fmt != 'shapefile' else os.path.exists(os.path.splitext(p['out'])[0] + '.shp')
        if not exists:
            ctx.observe('compare', {'cli_missing': True, 'differences': ['missing']})
        else:
            a, b = parse(p['out']), parse(ref_out)
            ctx.observe('compare', {'differences': [] if a == b else [f'parsed geometry differs: {str(a)[:150]} vs {str(b)[:150]}']})


ENGINE = CliSim()
