"""Helpers shared by engines: world materialisation, file observation, generic shrinking."""
from __future__ import annotations

import copy
import os

import numpy

from sim import observe, worldgen


def write_world_file(world, path, variant=0, *, raw_to_netcdf=None):
    """Harness-side write of a world to disk with plain xarray (never emsarray)."""
    ds = world.dataset(variant)
    style = world.spec.get('file_fill_style')
    geom = set(world.geometry_names())
    for name, var in ds.variables.items():
        if '_FillValue' in var.attrs or '_FillValue' in var.encoding:
            continue
        if style == 'xarray_default' and var.dtype.kind == 'f' and name not in world.vars:
            continue          # written the way plain xarray does: float coordinates get _FillValue = NaN
        if style == 'hole_fill' and world.conv != 'ugrid' and world.spec.get('materialise') != 'file_raw' \
                and name in geom and var.dtype.kind == 'f' and numpy.isnan(var.values).any():
            var.encoding['_FillValue'] = -999.0      # holes marked on disk with a fill value instead of NaN
            continue
        var.encoding['_FillValue'] = None
    if raw_to_netcdf is not None:
        raw_to_netcdf(ds, path)
    else:
        ds.to_netcdf(path)
    ds.close()


def open_world(world, scratch, variant=0, *, materialise=None, tag='input', raw=None):
    """Returns an xarray.Dataset for the world in the requested materialisation."""
    import xarray
    mat = materialise or world.spec.get('materialise', 'memory')
    if mat == 'memory':
        return world.dataset(variant)
    path = os.path.join(scratch, f'{tag}{variant}.nc')
    if not os.path.exists(path):
        write_world_file(world, path, variant, raw_to_netcdf=raw and raw.get('to_netcdf'))
    opener = (raw and raw.get('open_dataset')) or xarray.open_dataset
    if mat == 'file':
        return opener(path)
    if mat == 'file_raw':
        return opener(path, mask_and_scale=False)
    if mat == 'chunked':
        return opener(path, chunks={})
    if mat == 'chunked_auto':
        # chunk sizes come from the process's dask configuration (array.chunk-size): with a small value every variable
        # is cut along all of its dimensions
        return opener(path, chunks='auto')
    raise ValueError(mat)


def observe_file(ctx, path, *, polygons=True, raw_attrs=True):
    """Lifetime body: read a netCDF file the way another program would; never raises."""
    import netCDF4
    import xarray
    out = {'exists': os.path.exists(path)}
    if not out['exists']:
        ctx.observe('file', out)
        return
    try:
        ds = xarray.open_dataset(path)
        try:
            out['decoded'] = observe.observe_dataset(ds, polygons=polygons)
        finally:
            ds.close()
    except Exception as e:
        out['decoded_error'] = observe.exc_info(e)
    if raw_attrs:
        try:
            nc = netCDF4.Dataset(path, 'r')
            nc.set_auto_maskandscale(False)
            raw = {}
            for name, var in nc.variables.items():
                raw[name] = {
                    'ncattrs': {a: observe._canon_attr(var.getncattr(a)) for a in var.ncattrs()},
                    'dtype': str(var.dtype), 'dims': list(var.dimensions),
                    'values': numpy.asarray(var[...]) if var.dtype.kind in 'iuf' else None,
                }
            out['raw'] = raw
            out['global_attrs'] = {a: observe._canon_attr(nc.getncattr(a)) for a in nc.ncattrs()}
            nc.close()
        except Exception as e:
            out['raw_error'] = observe.exc_info(e)
    ctx.observe('file', out)


def decode_missing(values, attrs, encoding=None):
    """float64 array with NaN where the variable says 'missing' (NaN, _FillValue, missing_value)."""
    arr = numpy.asarray(values)
    if arr.dtype.kind == 'M' and (attrs is None or 'standard_name' in attrs):
        return arr            # a time *coordinate*: compared as datetimes
    if arr.dtype.kind in 'Mm':
        # datetime64 / timedelta64 *data*: seconds (since 2000-01-01 for datetimes), NaT -> NaN
        nat = numpy.isnat(arr)
        base = arr.astype('datetime64[s]') - numpy.datetime64('2000-01-01T00:00:00', 's') if arr.dtype.kind == 'M' else arr.astype('timedelta64[s]')
        out = base.astype('int64').astype('float64')
        return numpy.where(nat, numpy.nan, out)
    out = arr.astype('float64')
    for src in (attrs or {}), (encoding or {}):
        for key in ('_FillValue', 'missing_value'):
            if key in src:
                fv = src[key]
                if isinstance(fv, list) and len(fv) == 2 and isinstance(fv[0], str):
                    fv = fv[1]
                try:
                    fvf = float(fv)
                except (TypeError, ValueError):
                    continue
                if not numpy.isnan(fvf):
                    out = numpy.where(arr == arr.dtype.type(fvf) if arr.dtype.kind in 'iuf' else False, numpy.nan, out)
    # a variable still in its packed (undecoded) form carries scale_factor / add_offset as attributes
    a = attrs or {}
    if 'scale_factor' in a or 'add_offset' in a:
        def num(x, default):
            x = a.get(x, default)
            return float(x[1] if isinstance(x, list) and len(x) == 2 and isinstance(x[0], str) else x)
        out = out * num('scale_factor', 1.0) + num('add_offset', 0.0)
    return out


def arrays_equal_nan(a, b):
    a = numpy.asarray(a)
    b = numpy.asarray(b)
    if a.shape != b.shape:
        return False
    if a.dtype.kind in 'Mm' or b.dtype.kind in 'Mm':
        if a.dtype.kind != b.dtype.kind:
            return False
        unit = 'datetime64[ns]' if a.dtype.kind == 'M' else 'timedelta64[ns]'
        a, b = a.astype(unit), b.astype(unit)
        na, nb = numpy.isnat(a), numpy.isnat(b)
        return bool(numpy.array_equal(na, nb) and numpy.array_equal(a[~na], b[~nb]))
    try:
        return bool(numpy.array_equal(a.astype('float64'), b.astype('float64'), equal_nan=True))
    except (TypeError, ValueError):
        return bool(numpy.array_equal(a, b))


def to_canonical(obs_var, info):
    """
    Observed variable (dims/values/attrs/encoding) -> float64 array with dims (edims..., sdims...) as in `info`,
    NaN for missing.  `info` is a World.vars entry.  Returns None if dims do not match.
    """
    want = info['edims'] + info['sdims']
    dims = obs_var['dims']
    if sorted(dims) != sorted(want):
        return None
    vals = decode_missing(obs_var['values'], obs_var['attrs'], obs_var.get('encoding'))
    perm = [dims.index(d) for d in want]
    return numpy.transpose(vals, perm)


def ddmin_ops(plan, key='ops'):
    """Candidates with single ops dropped, then single faults dropped, then crash ends softened."""
    ops = plan[key]
    if len(ops) > 1:
        for k in reversed(range(len(ops))):
            p = copy.deepcopy(plan)
            del p[key][k]
            yield p
    for k, op in enumerate(ops):
        for fi in range(len(op.get('faults') or [])):
            p = copy.deepcopy(plan)
            del p[key][k]['faults'][fi]
            yield p
        if op.get('end') and op['end'] != 'exit':
            p = copy.deepcopy(plan)
            p[key][k]['end'] = 'exit'
            yield p


def shrink_world_in_plan(plan, key='world'):
    for w in worldgen.shrink_world_candidates(plan[key]):
        p = copy.deepcopy(plan)
        p[key] = w
        yield p


_WARM = False


def warm():
    """Import and exercise the heavy libraries once, before any fork, so lifetimes start warm."""
    global _WARM
    if _WARM:
        return
    _WARM = True
    import random
    import shutil
    import tempfile

    import cftime  # noqa: F401
    import dask  # noqa: F401
    import geojson  # noqa: F401
    import netCDF4  # noqa: F401
    import pandas  # noqa: F401
    import shapefile  # noqa: F401
    import shapely  # noqa: F401
    import xarray

    import emsarray
    import emsarray.cli  # noqa: F401
    import emsarray.operations.cache  # noqa: F401
    import emsarray.operations.geometry  # noqa: F401
    d = tempfile.mkdtemp(prefix='emsverif-warm-')
    try:
        for conv in ('cf1d', 'ugrid'):
            spec = worldgen.gen_world(random.Random(1), convs=[conv], materialise='memory', with_time=True)
            w = worldgen.World(spec)
            ds = w.dataset()
            p = os.path.join(d, conv + '.nc')
            emsarray.utils.to_netcdf_with_fixes(ds, p, time_variable=spec['time']['name'])
            back = xarray.open_dataset(p)
            back.load()
            back.ems.polygons
            back.close()
            mf = xarray.open_mfdataset([p], lock=False)
            mf.load()
            mf.close()
    finally:
        shutil.rmtree(d, ignore_errors=True)
