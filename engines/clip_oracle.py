"""
Reference model for clipping (C08 values, C09 validity/geometry).

A Space is the oracle's picture of one dataset: per grid kind its shape, per variable the
expected values (float64, NaN = missing) in canonical dimension order (extra..., spatial...),
per face the expected polygon, and for meshes the reference connectivity tables.  The world is
the first Space; judging a clipped result against (input Space, selection) yields the Space of
the result, so clips of clips compose.
"""
from __future__ import annotations

import itertools

import numpy

from sim import worldgen
from . import common

FILL_KEYS = {'_FillValue', 'missing_value', 'coordinates', 'scale_factor', 'add_offset'}


class Space:
    def __init__(self):
        self.conv = None
        self.kinds = {}        # kind -> {'dims': [...], 'shape': [...]}
        self.vars = {}         # name -> {'kind', 'edims', 'eshape', 'sdims', 'can_miss', 'values': ndarray (e..., s...)}
        self.polygons = None   # list over face linear index (tuples) / None ; None if geometry not explicit
        self.tables = None     # ugrid: {'face_node': [[...]], ...} 0-based with None
        self.world = None
        self.other = {}        # name -> observed-at-input values for non-grid variables (filled by executor obs)
        self.is_world = False

    @classmethod
    def from_world(cls, world: worldgen.World, variant=0):
        s = cls()
        s.conv = world.conv
        s.world = world
        s.is_world = True
        s.kinds = {k: {'dims': list(v['dims']), 'shape': list(v['shape'])} for k, v in world.kinds.items()}
        for name, info in world.vars.items():
            vals = world.canonical_array(name, variant).reshape(info['eshape'] + info['sshape'])
            s.vars[name] = {'kind': info['kind'], 'edims': list(info['edims']), 'eshape': list(info['eshape']),
                            'sdims': list(info['sdims']), 'can_miss': info['can_miss'], 'values': vals}
        if world.explicit_geometry():
            polys = world.polygons()
            s.polygons = [None if p is None else [tuple(map(float, c)) for c in p] for p in polys]
        if world.conv == 'ugrid':
            s.tables = world.mesh_tables()
        return s


# ----------------------------------------------------------------------------------------
# selection from a mask observation (documented structure of the mask dataset)
# ----------------------------------------------------------------------------------------

def selection_from_mask(space: Space, mask_obs):
    """-> {kind: bool ndarray over the kind's shape} or raises ValueError if the mask is unusable."""
    sel = {}
    if space.conv == 'ugrid':
        names = {'face': 'new_face_index', 'edge': 'new_edge_index', 'node': 'new_node_index'}
        for kind, info in space.kinds.items():
            mv = mask_obs['vars'].get(names[kind])
            if mv is None:
                continue
            vals = numpy.asarray(mv['values'])
            if vals.dtype.kind == 'f':
                s = ~numpy.isnan(vals)
            else:
                fv = mv['attrs'].get('_FillValue', mv['encoding'].get('_FillValue'))
                fv = fv[1] if isinstance(fv, list) else fv
                s = vals != fv if fv is not None else numpy.ones(vals.shape, bool)
            if list(s.shape) != info['shape']:
                raise ValueError(f'mask {names[kind]} has shape {s.shape}, grid {kind} has {info["shape"]}')
            # new indexes must be 0..n-1 in original order (documented: contiguous, original order)
            sel[kind] = s
        return sel
    for kind, info in space.kinds.items():
        found = None
        for name, mv in mask_obs['vars'].items():
            if name in mask_obs['coords']:
                continue
            if mv['dims'] == info['dims']:
                found = mv
        if found is None:
            continue
        vals = numpy.asarray(found['values'])
        if list(vals.shape) != info['shape']:
            raise ValueError(f'mask for {kind} has shape {vals.shape}, grid has {info["shape"]}')
        sel[kind] = vals.astype(bool)
    return sel


# ----------------------------------------------------------------------------------------
# building polygons from raw observed arrays with the generator's own rules
# ----------------------------------------------------------------------------------------

def _vals(obs, name):
    v = obs['vars'].get(name)
    if v is None:
        raise KeyError(name)
    return v


def build_polygons(world: worldgen.World, obs):
    """Polygons (list over face linear index) from the raw arrays of an observed dataset; None = hole."""
    s = world.spec
    c = world.conv
    out = []
    if c == 'cf1d':
        yb = _vals(obs, s['y']['var'] + '_bnds')
        xb = _vals(obs, s['x']['var'] + '_bnds')
        yv, xv = numpy.asarray(yb['values'], 'float64'), numpy.asarray(xb['values'], 'float64')
        for j in range(yv.shape[0]):
            for i in range(xv.shape[0]):
                pts = [(xv[i, 0], yv[j, 0]), (xv[i, 1], yv[j, 0]), (xv[i, 1], yv[j, 1]), (xv[i, 0], yv[j, 1])]
                out.append(None if numpy.isnan(pts).any() else [tuple(map(float, p)) for p in pts])
    elif c in ('cf2d', 'shoc_simple'):
        xb = _vals(obs, s['xvar'] + '_bnds')
        yb = _vals(obs, s['yvar'] + '_bnds')
        want = [s['ydim'], s['xdim'], 'nv']
        xv = numpy.transpose(numpy.asarray(xb['values'], 'float64'), [xb['dims'].index(d) for d in want])
        yv = numpy.transpose(numpy.asarray(yb['values'], 'float64'), [yb['dims'].index(d) for d in want])
        for j in range(xv.shape[0]):
            for i in range(xv.shape[1]):
                pts = list(zip(xv[j, i], yv[j, i]))
                out.append(None if numpy.isnan(pts).any() else [tuple(map(float, p)) for p in pts])
    elif c == 'shoc_standard':
        xg = numpy.asarray(_vals(obs, 'x_grid')['values'], 'float64')
        yg = numpy.asarray(_vals(obs, 'y_grid')['values'], 'float64')
        for j in range(xg.shape[0] - 1):
            for i in range(xg.shape[1] - 1):
                idx = [(j, i), (j, i + 1), (j + 1, i + 1), (j + 1, i)]
                pts = [(xg[a, b], yg[a, b]) for a, b in idx]
                out.append(None if numpy.isnan(pts).any() else [tuple(map(float, p)) for p in pts])
    else:
        nx = numpy.asarray(_vals(obs, 'Mesh2_node_x')['values'], 'float64')
        ny = numpy.asarray(_vals(obs, 'Mesh2_node_y')['values'], 'float64')
        table = decode_table(world, obs, 'face_node')
        for row in table:
            nodes = [n for n in row if n is not None]
            if any(n < 0 or n >= len(nx) for n in nodes):
                out.append('invalid')
            else:
                out.append([(float(nx[n]), float(ny[n])) for n in nodes])
    return out


def decode_table(world, obs, table):
    """Observed connectivity variable -> 0-based rows with None for missing (primary dimension first)."""
    name = world.CONN_NAMES[table]
    v = _vals(obs, name)
    vals = numpy.asarray(v['values'])
    primary = world.conn_dims(table)[0]
    if v['dims'][0] != primary:
        vals = vals.T
    si = v['attrs'].get('start_index', 0)
    si = si[1] if isinstance(si, list) else si
    rows = []
    fv = None
    for src in (v['attrs'], v['encoding']):
        if '_FillValue' in src:
            fv = src['_FillValue']
            fv = fv[1] if isinstance(fv, list) else fv
    for r in vals:
        row = []
        for x in r:
            if vals.dtype.kind == 'f':
                if numpy.isnan(x) or (fv is not None and not isinstance(fv, str) and float(x) == float(fv)):
                    row.append(None)
                else:
                    row.append(int(x) - int(si))
            else:
                row.append(None if (fv is not None and int(x) == int(fv)) else int(x) - int(si))
        rows.append(row)
    return rows


# ----------------------------------------------------------------------------------------
# judging a clipped result
# ----------------------------------------------------------------------------------------

def _canon(ov, vinfo):
    want = vinfo['edims'] + vinfo['sdims']
    if sorted(ov['dims']) != sorted(want):
        return None
    vals = common.decode_missing(ov['values'], ov['attrs'], ov.get('encoding'))
    return numpy.transpose(vals, [ov['dims'].index(d) for d in want])


def _eq(a, b):
    return (a == b) | (numpy.isnan(a) & numpy.isnan(b))


def selection_closure(space: Space, sel):
    """
    'The same holds for edge and node variables with respect to the selected edges and nodes': the selected
    edges / nodes are those that belong to at least one selected cell.  Derived here from the selected faces with
    the generator's own topology; returns [(clause, detail)] where the mask's edge / node selection differs.
    """
    fails = []
    if not space.is_world or 'face' not in sel:
        return fails
    fsel = sel['face']
    derived = {}
    if space.conv == 'ugrid':
        t = space.tables
        nn = space.kinds['node']['shape'][0]
        node = numpy.zeros(nn, bool)
        for fi in numpy.flatnonzero(fsel):
            for n in t['face_node'][fi]:
                if n is not None:
                    node[n] = True
        derived['node'] = node
        if 'edge' in space.kinds and 'face_edge' in t:
            edge = numpy.zeros(space.kinds['edge']['shape'][0], bool)
            for fi in numpy.flatnonzero(fsel):
                for e in t['face_edge'][fi]:
                    if e is not None:
                        edge[e] = True
            derived['edge'] = edge
    elif space.conv == 'shoc_standard':
        ny, nx = fsel.shape
        left = numpy.zeros((ny, nx + 1), bool)
        back = numpy.zeros((ny + 1, nx), bool)
        node = numpy.zeros((ny + 1, nx + 1), bool)
        for j, i in zip(*numpy.nonzero(fsel)):
            left[j, i] = left[j, i + 1] = True
            back[j, i] = back[j + 1, i] = True
            node[j, i] = node[j, i + 1] = node[j + 1, i] = node[j + 1, i + 1] = True
        derived = {'left': left, 'back': back, 'node': node}
    for kind, want in derived.items():
        got = sel.get(kind)
        if got is None:
            continue
        if got.shape != want.shape or (got != want).any():
            extra = int((got & ~want).sum()) if got.shape == want.shape else -1
            lost = int((~got & want).sum()) if got.shape == want.shape else -1
            fails.append(('selected-elements-not-those-of-selected-cells',
                          f'{kind} selection differs from the {kind}s of the selected cells: {extra} extra, {lost} missing'))
    return fails


def judge_clip(space: Space, sel, obs, *, label=''):
    """
    -> (c08 failures [(clause, detail)], c09 failures, new Space or None)
    `obs` is an observe_dataset() of the loaded/reopened result.
    """
    closure = [(c, f'{label}: {d}') for c, d in selection_closure(space, sel)]
    if space.conv == 'ugrid':
        c08, c09, new = _judge_mesh(space, sel, obs, label)
    else:
        c08, c09, new = _judge_grid(space, sel, obs, label)
    return closure + c08, c09, (new if not closure else None) if new is not None else None


def _expected_masked(space, sel):
    """Per variable: expected values over the *input* index space after blanking (before cropping)."""
    out = {}
    for name, v in space.vars.items():
        vals = v['values']
        if v['kind'] is None or v['kind'] not in sel:
            out[name] = vals
            continue
        m = sel[v['kind']]
        if v['can_miss']:
            out[name] = numpy.where(m, vals, numpy.nan)   # broadcast over leading extra dims
        else:
            out[name] = vals
    return out


def _judge_grid(space, sel, obs, label):
    c08, c09 = [], []
    world = space.world
    expected = _expected_masked(space, sel)
    new = Space()
    new.conv, new.world, new.tables = space.conv, world, None
    offsets = {}
    for kind, kinfo in space.kinds.items():
        dims = kinfo['dims']
        if any(d not in obs['sizes'] for d in dims):
            # a kind whose dimensions vanished entirely
            kvars = [n for n, v in space.vars.items() if v['kind'] == kind]
            if kvars or kind == 'face':
                c08.append(('dimension-lost', f'{label}: dimensions {dims} of grid {kind} are missing from the result'))
            continue
        oshape = [obs['sizes'][d] for d in dims]
        ishape = kinfo['shape']
        if any(o > i or o < 1 for o, i in zip(oshape, ishape)):
            c08.append(('shape', f'{label}: grid {kind} has shape {oshape} in the result, input {ishape}'))
            continue
        ksel = sel.get(kind)
        kvars = [n for n, v in space.vars.items() if v['kind'] == kind]
        best = None
        for off in itertools.product(*[range(i - o + 1) for o, i in zip(oshape, ishape)]):
            fails = []
            block = tuple(slice(a, a + o) for a, o in zip(off, oshape))
            if ksel is not None:
                inside = numpy.zeros(ishape, bool)
                inside[block] = True
                lost = int((ksel & ~inside).sum())
                if lost:
                    fails.append(('selected-cell-lost', f'{label}: {lost} selected {kind} element(s) are not present in the result'))
            for name in kvars:
                ov = obs['vars'].get(name)
                if ov is None:
                    fails.append(('variable-lost', f'{label}: variable {name} is missing from the result'))
                    continue
                got = _canon(ov, space.vars[name])
                if got is None:
                    fails.append(('dims', f'{label}: variable {name} has dims {ov["dims"]}'))
                    continue
                want = expected[name][(Ellipsis,) + block]
                if got.shape != want.shape:
                    fails.append(('shape', f'{label}: variable {name} has shape {got.shape}, expected {want.shape}'))
                    continue
                ok = _eq(got, want)
                if not ok.all():
                    bad = numpy.argwhere(~ok)[0]
                    pos = tuple(int(x) for x in bad)
                    sp = tuple(p + o for p, o in zip(pos[len(pos) - len(off):], off))
                    selected = bool(ksel[sp]) if ksel is not None else None
                    if selected:
                        clause = 'selected-value-changed'
                    elif space.vars[name]['can_miss']:
                        clause = 'unselected-not-blank'
                    else:
                        clause = 'unmaskable-altered'
                    fails.append((clause, f'{label}: {name}{list(pos)} (input cell {list(sp)}, selected={selected}) is {got[pos]}, expected {want[pos]}; {int((~ok).sum())} cell(s) differ'))
            if best is None or len(fails) < len(best[1]):
                best = (off, fails)
            if not fails:
                break
        off, fails = best
        c08.extend(fails)
        offsets[kind] = (off, oshape)
        new.offsets = offsets
        new.kinds[kind] = {'dims': list(dims), 'shape': list(oshape)}
    # variables without a grid kind, coordinates
    for name, v in space.vars.items():
        if v['kind'] is not None:
            if v['kind'] in offsets:
                off, oshape = offsets[v['kind']]
                block = tuple(slice(a, a + o) for a, o in zip(off, oshape))
                nv = dict(v)
                nv['values'] = expected[name][(Ellipsis,) + block]
                new.vars[name] = nv
            continue
        ov = obs['vars'].get(name)
        if ov is None:
            c08.append(('variable-lost', f'{label}: variable {name} (no grid) is missing from the result'))
            continue
        got = _canon(ov, v)
        if got is None or got.shape != v['values'].shape or not _eq(got, v['values']).all():
            c08.append(('non-spatial-changed', f'{label}: variable {name} has no spatial dimensions but was altered'))
        new.vars[name] = dict(v)
    # polygons (C09): selected cells keep exactly their polygon; no new polygon appears
    if space.polygons is not None and 'face' in offsets:
        off, oshape = offsets['face']
        ishape = space.kinds['face']['shape']
        try:
            built = build_polygons(world, obs)
        except KeyError as e:
            built = None
            c09.append(('geometry-variable-lost', f'{label}: geometry variable {e} is missing from the result'))
        if built is not None:
            n_out = int(numpy.prod(oshape))
            if len(built) != n_out:
                c09.append(('polygon-count', f'{label}: raw geometry arrays describe {len(built)} cells, face grid has {n_out}'))
            else:
                fsel = sel.get('face')
                newpolys = []
                for lin in range(n_out):
                    pos = numpy.unravel_index(lin, oshape)
                    src = tuple(int(p + o) for p, o in zip(pos, off))
                    src_lin = int(numpy.ravel_multi_index(src, ishape))
                    orig = space.polygons[src_lin]
                    got = built[lin]
                    selected = bool(fsel[src]) if fsel is not None else False
                    if selected and got != orig:
                        c09.append(('selected-polygon-changed', f'{label}: selected cell {list(src)} has polygon {got}, originally {orig}'))
                        break
                    if not selected and got is not None and got != orig:
                        c09.append(('new-polygon', f'{label}: unselected cell {list(src)} has a polygon {got} the original did not have ({orig})'))
                        break
                    newpolys.append(got if got == orig else None)
                else:
                    new.polygons = newpolys
                ems_polys = obs.get('polygons')
                if isinstance(ems_polys, dict) and ems_polys['error'].get('injected'):
                    pass   # the injected fault of this very op landed in the polygon computation: an error, not a wrong answer
                elif isinstance(ems_polys, dict):
                    c09.append(('polygons-raise', f'{label}: result.ems.polygons raises {ems_polys["error"]["exc"]}: {ems_polys["error"]["msg"]}',
                                ems_polys['error'].get('frame')))
                elif ems_polys is not None and ems_polys != built:
                    c09.append(('ems-polygons-differ', f'{label}: result.ems.polygons differs from the polygons stored in the raw geometry arrays'))
    return c08, c09, (new if not c08 else None)


def _judge_mesh(space, sel, obs, label):
    c08, c09 = [], []
    world = space.world
    new = Space()
    new.conv, new.world = space.conv, world
    index_of = {}
    for kind, kinfo in space.kinds.items():
        dim = kinfo['dims'][0]
        s = sel.get(kind)
        if s is None:
            s = numpy.ones(kinfo['shape'], bool)
        keep = [int(i) for i in numpy.flatnonzero(s)]
        index_of[kind] = keep
        if dim not in obs['sizes']:
            if any(v['kind'] == kind for v in space.vars.values()) or kind != 'edge':
                c08.append(('dimension-lost', f'{label}: dimension {dim} is missing from the result'))
            continue
        if obs['sizes'][dim] != len(keep):
            c08.append(('element-count', f'{label}: result has {obs["sizes"][dim]} {kind} elements, {len(keep)} were selected'))
        new.kinds[kind] = {'dims': [dim], 'shape': [len(keep)]}
    for name, v in space.vars.items():
        ov = obs['vars'].get(name)
        if ov is None:
            c08.append(('variable-lost', f'{label}: variable {name} is missing from the result'))
            continue
        got = _canon(ov, v)
        if got is None:
            c08.append(('dims', f'{label}: variable {name} has dims {ov["dims"]}'))
            continue
        if v['kind'] is None:
            want = v['values']
            clause = 'non-spatial-changed'
        else:
            want = v['values'][..., index_of[v['kind']]]
            clause = 'selected-value-changed'
        if got.shape != want.shape:
            c08.append(('shape', f'{label}: variable {name} has shape {got.shape}, expected {want.shape}'))
            continue
        ok = _eq(got, want)
        if not ok.all():
            pos = tuple(int(x) for x in numpy.argwhere(~ok)[0])
            c08.append((clause, f'{label}: {name}{list(pos)} is {got[pos]}, expected {want[pos]} (elements keep original relative order); {int((~ok).sum())} differ'))
        nv = dict(v)
        nv['values'] = want
        new.vars[name] = nv
    # C09: connectivity tables present, reindexed, consistent
    tables = space.tables or {}
    remap = {kind: {old: k for k, old in enumerate(keep)} for kind, keep in index_of.items()}
    new.tables = {}
    present = ['face_node'] + [t for t in world.spec['tables']]
    row_kind = {'face_node': 'face', 'face_edge': 'face', 'face_face': 'face', 'edge_node': 'edge', 'edge_face': 'edge'}
    col_kind = {'face_node': 'node', 'face_edge': 'edge', 'face_face': 'face', 'edge_node': 'node', 'edge_face': 'face'}
    for t in tables:
        rk, ck = row_kind[t], col_kind[t]
        if rk not in index_of or ck not in index_of:
            continue
        exp_rows = []
        for old_row in index_of[rk]:
            exp_rows.append([None if (x is None or x not in remap[ck]) else remap[ck][x] for x in tables[t][old_row]])
        new.tables[t] = exp_rows
        if t not in present:
            continue
        name = world.CONN_NAMES[t]
        ov = obs['vars'].get(name)
        if ov is None:
            c09.append(('connectivity-lost', f'{label}: connectivity variable {name} is missing from the result'))
            continue
        src_dims = list(world.conn_dims(t))
        if t in world.spec['transposed']:
            src_dims = src_dims[::-1]
        if ov['dims'] != src_dims:
            c09.append(('connectivity-dims', f'{label}: {name} has dims {ov["dims"]}, input had {src_dims}'))
            continue
        si = ov['attrs'].get('start_index')
        si = si[1] if isinstance(si, list) else si
        if si != world.start_index(t):
            c09.append(('connectivity-start-index', f'{label}: {name} start_index is {si!r}, input had {world.start_index(t)}'))
            continue
        try:
            got_rows = decode_table(world, obs, t)
        except Exception as e:
            c09.append(('connectivity-undecodable', f'{label}: {name}: {type(e).__name__}: {e}'))
            continue
        n_col = len(index_of[ck])
        bad_range = [(r, x) for r, row in enumerate(got_rows) for x in row if x is not None and not (0 <= x < n_col)]
        if bad_range:
            c09.append(('connectivity-dangling', f'{label}: {name} row {bad_range[0][0]} refers to {ck} {bad_range[0][1]}, only {n_col} survive'))
            continue
        if got_rows != exp_rows:
            r = next(k for k in range(max(len(got_rows), len(exp_rows))) if k >= len(got_rows) or k >= len(exp_rows) or got_rows[k] != exp_rows[k])
            c09.append(('connectivity-wrong', f'{label}: {name} row {r} is {got_rows[r] if r < len(got_rows) else None}, expected {exp_rows[r] if r < len(exp_rows) else None} (original entries under the new numbering)'))
    # polygons
    if space.polygons is not None:
        try:
            built = build_polygons(world, obs)
        except Exception as e:
            built = None
            c09.append(('geometry-variable-lost', f'{label}: cannot rebuild polygons from the result: {type(e).__name__}: {e}'))
        if built is not None:
            want = [space.polygons[i] for i in index_of['face']]
            if built != want:
                k = next((i for i in range(min(len(built), len(want))) if built[i] != want[i]), min(len(built), len(want)))
                c09.append(('selected-polygon-changed', f'{label}: face {k} of the result has polygon {built[k] if k < len(built) else None}, the selected face had {want[k] if k < len(want) else None}'))
            new.polygons = want
            ems_polys = obs.get('polygons')
            if isinstance(ems_polys, dict) and ems_polys['error'].get('injected'):
                pass   # the injected fault of this very op landed in the polygon computation: an error, not a wrong answer
            elif isinstance(ems_polys, dict):
                c09.append(('polygons-raise', f'{label}: result.ems.polygons raises {ems_polys["error"]["exc"]}: {ems_polys["error"]["msg"]}',
                            ems_polys['error'].get('frame')))
            elif ems_polys is not None and ems_polys != built:
                c09.append(('ems-polygons-differ', f'{label}: result.ems.polygons differs from the polygons stored in the raw arrays'))
    return c08, c09, (new if not c08 else None)


def _norm_attr(v):
    """numpy scalars / 1-element arrays compare equal to the python value (netCDF round trips change the wrapper, not the value)."""
    if isinstance(v, list) and len(v) == 2 and isinstance(v[0], str) and not isinstance(v[1], list):
        return _norm_attr(v[1])
    if isinstance(v, list) and len(v) == 3 and v[0] == 'ndarray':
        inner = v[2]
        if isinstance(inner, list) and len(inner) == 1:
            return _norm_attr(inner[0])
        return inner
    if isinstance(v, bool):
        return int(v)
    if isinstance(v, float) and v == int(v):
        return int(v)
    return v


def judge_passthrough(space: Space, pre, obs, label, new=None):
    """Coordinates and attributes pass through unchanged (C08 last sentence). `pre` = observation of the input dataset."""
    fails = []
    for k, v in pre['attrs'].items():
        if _norm_attr(obs['attrs'].get(k)) != _norm_attr(v):
            fails.append(('attribute-changed', f'{label}: global attribute {k!r} is {obs["attrs"].get(k)!r}, input had {v!r}'))
            break
    for name, pv in pre['vars'].items():
        ov = obs['vars'].get(name)
        if ov is None:
            continue
        for k, v in pv['attrs'].items():
            if k in FILL_KEYS:
                continue
            if _norm_attr(ov['attrs'].get(k)) != _norm_attr(v):
                fails.append(('attribute-changed', f'{label}: attribute {k!r} of {name} is {ov["attrs"].get(k)!r}, input had {v!r}'))
                break
    for name in obs['vars']:
        if name not in pre['vars']:
            fails.append(('variable-unexpected', f'{label}: the result has a variable {name} that the clipped dataset does not have'))
            break
    world = space.world
    offsets = getattr(new, 'offsets', None)
    if offsets and space.conv != 'ugrid':
        # grid coordinates (and bounds) are cropped to the kept block, never altered
        where = {}
        for kind, (off, oshape) in offsets.items():
            for d, a, o in zip(space.kinds[kind]['dims'], off, oshape):
                where[d] = slice(a, a + o)
        for name in world.geometry_names():
            pv, ov = pre['vars'].get(name), obs['vars'].get(name)
            if pv is None or ov is None or list(pv['dims']) != list(ov['dims']):
                continue
            if not any(d in where for d in pv['dims']):
                continue
            want = numpy.asarray(pv['values'])[tuple(where.get(d, slice(None)) for d in pv['dims'])]
            got = numpy.asarray(ov['values'])
            if not (want.dtype.kind == 'f' and got.dtype.kind == 'f' and want.shape == got.shape):
                continue
            if name in obs['coords']:
                bad = not common.arrays_equal_nan(got, want)
            else:
                # held as a data variable on the grid it is blanked at unselected cells like any other variable;
                # whatever is left must be the input's value
                keep = ~numpy.isnan(got)
                bad = bool((got[keep] != want[keep]).any())
            if bad:
                fails.append(('coordinate-changed', f'{label}: values of geometry variable {name} are not those of the input at the kept block'))
                break
    t = world.spec.get('time')
    if t and t['name'] in pre['vars']:
        ov = obs['vars'].get(t['name'])
        if ov is None:
            fails.append(('coordinate-lost', f'{label}: time coordinate {t["name"]} is missing from the result'))
        elif not common.arrays_equal_nan(ov['values'], pre['vars'][t['name']]['values']):
            fails.append(('coordinate-changed', f'{label}: time coordinate values changed'))
    return fails
