"""
exportsim - C15: geometry export (streamed GeoJSON, 3-file shapefile, WKT, WKB) as an
acknowledged write under write/close/open faults, ack-then-crash and crash mid-write; the
file is always read back by another process with independent readers.
"""
from __future__ import annotations

import copy
import json
import os

from sim import lifetimes, observe, seams, worldgen
from . import common

FORMATS = ['geojson', 'shapefile', 'wkt', 'wkb']
EXT = {'geojson': '.geojson', 'shapefile': '.shp', 'wkt': '.wkt', 'wkb': '.wkb'}


def ring_equal(a, b):
    """Vertex cycles equal up to rotation and direction; coordinates exactly equal."""
    a = [tuple(p) for p in a]
    b = [tuple(p) for p in b]
    if len(a) > 1 and a[0] == a[-1]:
        a = a[:-1]
    if len(b) > 1 and b[0] == b[-1]:
        b = b[:-1]
    if len(a) != len(b):
        return False
    n = len(a)
    if n == 0:
        return True
    for cand in (b, b[::-1]):
        for k in range(n):
            if cand[k] == a[0] and all(cand[(k + j) % n] == a[j] for j in range(n)):
                return True
    return False


class ExportSim:
    name = 'exportsim'
    properties = ['C15']

    def budget(self, prop, tier):
        return {'quick': {'runs': 2500, 'seconds': 50}, 'thorough': {'runs': 120000, 'seconds': 600}}[tier]

    def rule(self, prop):
        return ('plans drawn from VERIF_SEED: world (every convention, holes, non-round coordinates) x 1-3 export steps '
                '(format x target form: str / Path / explicit component handles) x faults at open / k-th write / close (the buffered tail is lost) / '
                'crash at k-th write x exit|crash_after_ack, each faulted step followed by a fault-free retry; several formats under one file stem; an earlier export of another dataset of the same size in the same process; every acknowledged export read again at the end. Non-trivial = at '
                'least one acknowledged export was read back and judged by another process. Distinct = distinct signature '
                '(convention, materialisation, holes?, per-step format/target/end/fired faults/acked).')

    def real_vs_stub(self):
        return {'real': ['emsarray (working tree)', 'json', 'geojson', 'pyshp', 'shapely', 'file system (scratch dir)', 'process death'],
                'stub': ['module attribute `open` of emsarray.operations.geometry, pathlib.Path.open for write modes, and caller-supplied shp/shx/dbf handles wrap real files so that the k-th write/close can fail']}

    def assumptions(self, prop):
        return ['process-crash durability (kernel-accepted data survives)', 'rings compared as vertex cycles up to rotation and direction, coordinates exactly',
                'reference cells = Convention.polygons observed in the exporting process before the export (plus generator ground truth where geometry is explicit)']

    def gen_plan(self, rng, tier):
        big = tier == 'thorough'
        world = worldgen.gen_world(rng, max_n=5 if big else 4, max_faces=12 if big else 8, max_vars=1, with_time=False,
                                   allow_perm=False, materialise=rng.choice(['memory', 'memory', 'file']))
        ops = []
        shared_stem = rng.random() < 0.4      # several formats of one dataset next to each other under one name (cells.geojson, cells.shp, ...)
        for k in range(rng.choice([1, 1, 2, 3])):
            fmt = rng.choice(FORMATS)
            if fmt == 'shapefile':
                target = rng.choice(['str', 'path', 'parts_paths', 'parts_handles', 'cli'])
            else:
                target = rng.choice(['str', 'path', 'cli'])
            faults = []
            if rng.random() < 0.45:
                seam = rng.choice(['fwrite', 'fwrite', 'fwrite', 'fclose', 'fopen'])
                if seam == 'fwrite':
                    nth = rng.choice([1, 1, 2, 3, 5, 9, 20, 60]) if fmt in ('geojson', 'shapefile') else 1
                    kind = rng.choice(['ENOSPC', 'EIO', 'short', 'crash'])
                elif seam == 'fclose':
                    nth = rng.choice([1, 1, 2, 3]) if fmt == 'shapefile' else 1
                    kind = rng.choice(['EIO', 'ENOSPC'])
                else:
                    nth = rng.choice([1, 1, 2, 3]) if fmt == 'shapefile' else 1
                    kind = rng.choice(['EACCES', 'ENOSPC', 'EMFILE'])
                faults.append({'seam': seam, 'nth': nth, 'kind': kind})
            end = 'crash_after_ack' if rng.random() < 0.4 else 'exit'
            name = 'cells' if shared_stem else f'geom{k}'
            ops.append({'op': 'export', 'fmt': fmt, 'target': target, 'name': name, 'faults': faults, 'end': end})
            # environment of this process: something older (longer or shorter) already sits at the output path; the
            # temporary directory is on another file system than the output
            if rng.random() < 0.25:
                ops[-1]['preexisting'] = rng.choice(['longer', 'longer', 'shorter'])
            if target == 'cli' and rng.random() < 0.4:
                ops[-1]['tmpdir_other_fs'] = True
            if rng.random() < 0.2:
                ops[-1]['logging_debug'] = True       # the exporting process runs with verbose logging (`-vv`, level DEBUG)
            if faults:
                ops.append({'op': 'export', 'fmt': fmt, 'target': target, 'retry': True,
                            'name': name if rng.random() < 0.6 else f'retry{k}', 'faults': [], 'end': 'exit'})
        plan = {'engine': self.name, 'world': world, 'ops': ops}
        # history: another dataset of the same convention with the same number of cells but another shape, exported
        # earlier by the same process (anything remembered per convention / per size must not leak into this export)
        if world['conv'] != 'ugrid' and world.get('nx') != world.get('ny') and rng.random() < 0.5:
            import random
            rng2 = random.Random(rng.randrange(1 << 30))
            for _ in range(400):
                other = worldgen.gen_world(rng2, convs=[world['conv']], max_n=5 if big else 4, max_vars=1, with_time=False,
                                           allow_perm=False, materialise='memory')
                if (other.get('nx'), other.get('ny')) == (world.get('ny'), world.get('nx')):
                    for op in ops:
                        if rng.random() < 0.7:
                            op['earlier'] = True
                    plan['earlier_world'] = other
                    break
        return plan

    def shrink(self, plan):
        if plan.get('earlier_world') is not None:
            p = copy.deepcopy(plan)
            p.pop('earlier_world')
            for op in p['ops']:
                op.pop('earlier', None)
            yield p
        yield from common.ddmin_ops(plan)
        for k, op in enumerate(plan['ops']):
            if op.get('logging_debug'):
                p = copy.deepcopy(plan)
                p['ops'][k].pop('logging_debug')
                yield p
        for k, op in enumerate(plan['ops']):
            if op['target'] not in ('str',):
                p = copy.deepcopy(plan)
                p['ops'][k]['target'] = 'str'
                yield p
        yield from common.shrink_world_in_plan(plan)

    def predicate(self, pred, plan, v):
        fmts = {op['fmt'] for op in plan['ops']}
        if pred.startswith('fmt='):
            return pred[4:] in fmts and len(fmts) == 1
        return True

    def run(self, plan, scratch, out):
        world = worldgen.World(plan['world'])
        sig = []
        judged = False
        acked_files = {}
        for k, step in enumerate(plan['ops']):
            res = lifetimes.run_lifetime(_export_lifetime, plan['world'], step, scratch, plan.get('earlier_world') if step.get('earlier') else None)
            if res['status'] in ('harness_error', 'timeout'):
                out.harness_error = f'step {k}: {res["error"]}'
                return
            for kind, payload in res['events']:
                out.event(kind, step=k, **payload)
            out.event('lifetime_end', step=k, status=res['status'])
            out.stats[f'end.{res["status"]}'] += 1
            done = [p for kk, p in res['events'] if kk == 'op_done']
            raised = [p for kk, p in res['events'] if kk == 'op_raised']
            fired = [p for kk, p in res['events'] if kk == 'fault_fired']
            for f in fired:
                out.stats[f"fault.{f['seam']}.{f['kind']}"] += 1
            for kk, p_ in res['events']:
                if kk == 'probe':
                    out.stats[f"probe.{p_['name']}"] += 1
            acked = bool(done) and done[0]['acked']
            sig.append((step['fmt'], step['target'], step['end'], tuple((f['seam'], f['kind']) for f in fired), acked))
            out.stats[f'fmt.{step["fmt"]}'] += 1
            if raised and not fired:
                r = raised[0]
                out.violate('C15', 'export-raised', r['frame'],
                            f"fault-free {step['fmt']} export raised {r['exc']}: {res['obs'].get('raised_msg')}")
            if not acked:
                continue
            pre = res['obs'].get('pre')
            rb = lifetimes.run_lifetime(_readback_lifetime, step, scratch)
            if rb['status'] != 'exit':
                out.harness_error = f'readback failed: {rb["error"]}'
                return
            got = rb['obs']['readback']
            judged = True
            out.stats['acked_exports'] += 1
            if res['status'] == 'crash_after_ack':
                out.stats['probe.judged_after_ack_then_crash'] += 1
            if fired:
                out.stats['probe.acked_despite_fault'] += 1
            if step.get('retry'):
                out.stats['probe.retry_acked'] += 1
            n_before = len(out.violations)
            self.judge(out, world, step, pre, got)
            out.event('judged', step=k, fmt=step['fmt'], n_cells=None if not pre else sum(p is not None for p in pre['polygons']),
                      new_violations=len(out.violations) - n_before)
            acked_files[(step['name'], step['fmt'])] = (k, step, got)
        # an acknowledged export stays readable: nothing emsarray does afterwards (a later export of another format under
        # the same name, a later export that fails and cleans up) may damage it.  A later export to the very same file
        # replaces it, whatever happens to that later export, and is not compared.
        for (name, fmt), (k, step, got) in sorted(acked_files.items()):
            later = [j for j, st in enumerate(plan['ops']) if j > k]
            if not later or any(plan['ops'][j]['name'] == name and plan['ops'][j]['fmt'] == fmt for j in later):
                continue
            rb = lifetimes.run_lifetime(_readback_lifetime, step, scratch)
            if rb['status'] != 'exit':
                out.harness_error = f'readback failed: {rb["error"]}'
                return
            again = rb['obs']['readback']
            out.stats['probe.earlier_export_read_again_at_the_end'] += 1
            if json.dumps(again, sort_keys=True, default=str) != json.dumps(got, sort_keys=True, default=str):
                out.violate('C15', 'earlier-export-damaged', None,
                            f"the acknowledged {fmt} export {name}{EXT[fmt]} (step {k}) no longer reads back as it did: "
                            f"{str(again.get('error') or 'content differs')[:200]} after later steps {[(plan['ops'][j]['fmt'], plan['ops'][j]['name']) for j in later]}")
            out.event('reread', step=k, same=json.dumps(again, sort_keys=True, default=str) == json.dumps(got, sort_keys=True, default=str))
        holes = bool(plan['world'].get('holes') or plan['world'].get('nan_nodes'))
        out.signature = (world.conv, plan['world']['materialise'], holes, tuple(sig))
        out.nontrivial = {'C15': judged}
        out.stats['runs'] += 1
        out.stats[f'conv.{world.conv}'] += 1
        if holes and judged:
            out.stats['probe.export_with_holes_judged'] += 1

    def judge(self, out, world, step, pre, got):
        P = 'C15'
        fmt = step['fmt']
        if pre is None or isinstance(pre.get('polygons'), dict):
            return  # the dataset itself has no usable polygons (not this property's business)
        if 'error' in got:
            out.violate(P, f'readback-{fmt}', None, f'acknowledged {fmt} export cannot be read back: {got["error"]}')
            return
        cells = [(i, p) for i, p in enumerate(pre['polygons']) if p is not None]
        truth = world.polygons()
        if truth is not None and world.explicit_geometry():
            tcells = [(i, [tuple(map(float, c)) for c in t]) for i, t in enumerate(truth) if t is not None]
            if tcells != [(i, [tuple(c) for c in p]) for i, p in cells]:
                return  # polygons themselves disagree with the generator: C06's business, not export
        feats = got['features']
        if len(feats) != len(cells):
            out.violate(P, f'count-{fmt}', None, f'{fmt}: {len(feats)} features read back, dataset has {len(cells)} cells with polygons')
            return
        index_of = dict(pre['indexes'])
        face = world.kinds['face']
        for k, ((i, poly), feat) in enumerate(zip(cells, feats)):
            rings = feat['rings']
            if len(rings) != 1 or not ring_equal(poly, rings[0]):
                out.violate(P, f'coordinates-{fmt}', None,
                            f'{fmt}: feature {k} (cell {i}) ring {rings[:1]} != cell polygon {poly}')
                return
            if fmt in ('geojson', 'shapefile'):
                li, idx = feat.get('linear_index'), feat.get('index')
                if li != i:
                    out.violate(P, f'linear-index-{fmt}', None, f'{fmt}: feature {k} records linear_index {li!r}, cell is {i}')
                    return
                want_idx = index_of.get(i)
                lin = self._ravel(world, idx)
                if idx != want_idx or lin != i:
                    out.violate(P, f'native-index-{fmt}', None,
                                f'{fmt}: feature {k} records index {idx!r} (ravel -> {lin}), cell {i} has native index {want_idx!r}')
                    return
            if fmt == 'shapefile' and feat.get('name') != f'polygon{i}':
                out.violate(P, 'name-shapefile', None, f'record {k} name {feat.get("name")!r} != polygon{i}')
                return

    @staticmethod
    def _ravel(world, idx):
        """Own row-major arithmetic on the generator's face shape."""
        try:
            shape = world.kinds['face']['shape']
            if world.conv in ('cf1d', 'cf2d', 'shoc_simple'):
                j, i = idx
                if not (0 <= j < shape[0] and 0 <= i < shape[1]):
                    return None
                return j * shape[1] + i
            if world.conv == 'shoc_standard':
                kind, j, i = idx
                if kind != 'face' or not (0 <= j < shape[0] and 0 <= i < shape[1]):
                    return None
                return j * shape[1] + i
            kind, i = idx
            if kind != 'face' or not (0 <= i < shape[0]):
                return None
            return i
        except (TypeError, ValueError):
            return None


def _paths(step, scratch):
    base = os.path.join(scratch, step['name'])
    return base, base + EXT[step['fmt']]


def _export_lifetime(ctx, world_spec, step, scratch, earlier_spec=None):
    import pathlib

    import emsarray.operations.geometry as geometry
    if earlier_spec is not None:
        # an export of another dataset earlier in this process (fault-free, thrown away)
        other = worldgen.World(earlier_spec).dataset()
        tmp = os.path.join(scratch, 'earlier_export')
        try:
            {'geojson': geometry.write_geojson, 'wkt': geometry.write_wkt, 'wkb': geometry.write_wkb,
             'shapefile': geometry.write_shapefile}[step['fmt']](other, tmp + ('.shp' if step['fmt'] == 'shapefile' else '.out'))
            ctx.emit('probe', name='earlier_export_same_convention_same_size_other_shape')
        except Exception as e:
            ctx.emit('earlier_export_raised', exc=type(e).__name__)
        for ext in ('.out', '.shp', '.shx', '.dbf', '.prj'):
            try:
                os.remove(tmp + ext)
            except OSError:
                pass
    ctx.full_flush = True
    if step.get('logging_debug'):
        seams.apply_process_env({'logging_debug': True}, ctx, scratch)
    ctl = seams.FaultController(ctx)
    seams.install_fopen_seam(ctl, geometry)
    faulty_open = geometry.open
    real_path_open = pathlib.Path.open

    def path_open(self, mode='r', *args, **kwargs):
        if any(c in mode for c in 'wax+'):
            return faulty_open(str(self), mode, *args, **kwargs)
        return real_path_open(self, mode, *args, **kwargs)

    pathlib.Path.open = path_open
    world = worldgen.World(world_spec)
    cli_input = None
    if step['target'] == 'cli':
        # the command line path: `emsarray export-geometry` opens the file itself; the reference cells are those of
        # the same file opened the library way
        import emsarray
        cli_input = os.path.join(scratch, 'cli_input.nc')
        if not os.path.exists(cli_input):
            common.write_world_file(world, cli_input)
        ds = emsarray.open_dataset(cli_input)
    else:
        ds = common.open_world(world, scratch)
    try:
        polys = observe.polygons_as_lists(ds.ems.polygons)
        idx = [(i, json.loads(json.dumps(ds.ems.wind_index(i)))) for i, p in enumerate(polys) if p is not None]
        pre = {'polygons': polys, 'indexes': idx}
    except Exception as e:
        pre = {'polygons': {'error': observe.exc_info(e)}}
    ctx.observe('pre', pre)
    base, path = _paths(step, scratch)
    fmt, target = step['fmt'], step['target']
    if step.get('preexisting'):
        junk = (b'{"stale": "' + b'x' * 400000 + b'"}\n') if step['preexisting'] == 'longer' else b'stale\n'
        for p_ in ([path] if fmt != 'shapefile' else [base + e_ for e_ in ('.shp', '.shx', '.dbf')]):
            if not os.path.exists(p_):
                with open(p_, 'wb') as fh_:
                    fh_.write(junk)
        ctx.emit('probe', name=f'older_{step["preexisting"]}_file_at_the_output_path')
    other_tmp = None
    if step.get('tmpdir_other_fs'):
        import tempfile

        from sim import core as _core
        other_tmp = _core.other_fs_tmpdir(scratch)
        if other_tmp is not None:
            os.environ['TMPDIR'] = other_tmp
            tempfile.tempdir = None
            ctx.emit('probe', name='TMPDIR_on_another_file_system')
    ctl.begin_op('export', step['faults'])
    acked = False
    handles = []
    try:
        if target == 'cli':
            import sys

            import emsarray.cli
            old = sys.stdout, sys.stderr
            try:
                with open(os.path.join(scratch, 'cli.stderr'), 'w') as ferr:
                    sys.stdout = sys.stderr = ferr
                    try:
                        emsarray.cli.main(['export-geometry', cli_input, path, '-f', fmt])
                    except SystemExit as e:
                        if e.code not in (0, None):
                            raise OSError(f'emsarray export-geometry exited with status {e.code}') from None
            finally:
                sys.stdout, sys.stderr = old
        elif fmt == 'geojson':
            geometry.write_geojson(ds, path if target == 'str' else pathlib.Path(path))
        elif fmt == 'wkt':
            geometry.write_wkt(ds, path if target == 'str' else pathlib.Path(path))
        elif fmt == 'wkb':
            geometry.write_wkb(ds, path if target == 'str' else pathlib.Path(path))
        else:
            if target == 'str':
                geometry.write_shapefile(ds, path)
            elif target == 'path':
                geometry.write_shapefile(ds, pathlib.Path(path))
            elif target == 'parts_paths':
                geometry.write_shapefile(ds, shp=base + '.shp', shx=base + '.shx', dbf=base + '.dbf')
            else:
                for ext in ('shp', 'shx', 'dbf'):
                    handles.append(faulty_open(f'{base}.{ext}', 'wb+'))
                geometry.write_shapefile(ds, shp=handles[0], shx=handles[1], dbf=handles[2])
                # the caller owns these handles: closing them is the caller's part of the acknowledgement
                for h in handles:
                    h.close()
        acked = True
    except Exception as e:
        info = observe.exc_info(e)
        ctx.emit('op_raised', exc=info['exc'], frame=info['frame'], injected=info['injected'])
        ctx.observe('raised_msg', info['msg'])
    fired, unfired, counts = ctl.end_op()
    ctx.emit('op_done', acked=acked, unfired=[(f['seam'], f['kind']) for f in unfired],
             crossings={k: (v if v < 5 else '5+') for k, v in sorted(counts.items())})
    if step['end'] == 'crash_after_ack':
        ctx.crash_after_ack()


def _readback_lifetime(ctx, step, scratch):
    """Independent readers; returns {'features': [{'rings': [[(x,y),...]], 'linear_index':..., 'index':...}]} or {'error':...}"""
    base, path = _paths(step, scratch)
    fmt = step['fmt']
    try:
        feats = []
        if fmt == 'geojson':
            with open(path, 'r') as f:
                doc = json.load(f)
            if doc.get('type') != 'FeatureCollection':
                raise ValueError('not a FeatureCollection')
            for ft in doc['features']:
                g = ft['geometry']
                if g['type'] != 'Polygon':
                    raise ValueError(f'geometry type {g["type"]}')
                feats.append({'rings': [[tuple(map(float, c)) for c in ring] for ring in g['coordinates']],
                              'linear_index': ft['properties'].get('linear_index'), 'index': ft['properties'].get('index')})
        elif fmt == 'shapefile':
            import shapefile
            with shapefile.Reader(shp=open(base + '.shp', 'rb'), shx=open(base + '.shx', 'rb'), dbf=open(base + '.dbf', 'rb')) as r:
                shapes = r.shapes()
                records = r.records()
                if len(shapes) != len(records):
                    raise ValueError(f'{len(shapes)} shapes but {len(records)} records')
                for s, rec in zip(shapes, records):
                    parts = list(s.parts) + [len(s.points)]
                    rings = [[tuple(map(float, p)) for p in s.points[parts[k]:parts[k + 1]]] for k in range(len(parts) - 1)]
                    vals = list(rec)
                    idx = None
                    try:
                        idx = json.loads(vals[2]) if len(vals) > 2 and isinstance(vals[2], str) else None
                    except ValueError:
                        idx = {'unparseable': vals[2]}
                    feats.append({'rings': rings, 'name': vals[0] if vals else None,
                                  'linear_index': vals[1] if len(vals) > 1 else None, 'index': idx})
        else:
            import shapely
            if fmt == 'wkt':
                with open(path, 'r') as f:
                    geom = shapely.from_wkt(f.read())
            else:
                with open(path, 'rb') as f:
                    geom = shapely.from_wkb(f.read())
            if geom.geom_type != 'MultiPolygon':
                raise ValueError(f'geometry type {geom.geom_type}')
            for g in geom.geoms:
                rings = [[tuple(map(float, c)) for c in g.exterior.coords]] + [[tuple(map(float, c)) for c in r.coords] for r in g.interiors]
                feats.append({'rings': rings})
        ctx.observe('readback', {'features': feats})
    except Exception as e:
        ctx.observe('readback', {'error': f'{type(e).__name__}: {str(e)[:200]}'})


ENGINE = ExportSim()
