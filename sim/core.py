"""
Shared driver: plan -> execute -> outcome; seeded batches over a fork pool; violation
confirmation, minimisation, replay files, known findings, evidence.
"""
from __future__ import annotations

import collections
import concurrent.futures
import copy
import hashlib
import json
import multiprocessing
import os
import pathlib
import shutil
import subprocess
import sys
import tempfile
import time
import traceback

from . import prng

VERIF = pathlib.Path(__file__).resolve().parent.parent
REPLAYS = pathlib.Path(os.environ.get('VERIF_REPLAY_DIR') or (VERIF / 'replays'))
EVIDENCE = pathlib.Path(os.environ.get('VERIF_EVIDENCE_DIR') or (VERIF / 'evidence'))
KNOWN = VERIF / 'known_findings.json'


class Outcome:
    """Result of executing one plan."""

    def __init__(self):
        self.events = []          # [(kind, payload)], payload JSON-able & deterministic
        self.violations = []      # [{'property','clause','frame','detail'}]
        self.stats = collections.Counter()
        self.signature = None     # hashable tuple describing the run (for distinct counting)
        self.nontrivial = {}      # property -> bool
        self.harness_error = None

    def event(self, _ev, **payload):
        self.events.append((_ev, payload))

    def violate(self, prop, clause, frame=None, detail=''):
        v = {'property': prop, 'clause': clause, 'frame': frame, 'detail': str(detail)[:500]}
        self.violations.append(v)
        self.event('violation', property=prop, clause=clause, frame=frame)

    def digest(self):
        blob = json.dumps(self.events, sort_keys=True, default=_json_default).encode()
        return hashlib.sha256(blob).hexdigest()

    def compact(self):
        return {
            'violations': self.violations, 'stats': dict(self.stats), 'signature': self.signature,
            'nontrivial': self.nontrivial, 'harness_error': self.harness_error,
            'digest': self.digest(), 'n_events': len(self.events),
        }


def _json_default(o):
    import numpy
    if isinstance(o, numpy.generic):
        return o.item()
    if isinstance(o, numpy.ndarray):
        return o.tolist()
    if isinstance(o, (set, frozenset)):
        return sorted(o, key=repr)
    if isinstance(o, tuple):
        return list(o)
    return repr(o)


def vclass(v):
    return (v['property'], v['clause'], v['frame'])


def execute(engine, plan) -> Outcome:
    """Execute a plan in a private scratch root (removed afterwards)."""
    scratch = tempfile.mkdtemp(prefix='emsverif-')
    out = Outcome()
    try:
        try:
            from . import lifetimes
            lifetimes.begin_run(plan)
            engine.run(plan, scratch, out)
        except Exception:
            out.harness_error = traceback.format_exc()
    finally:
        shutil.rmtree(scratch, ignore_errors=True)
        # a run may have asked for a temporary directory on another file system (see other_fs_tmpdir)
        shutil.rmtree(other_fs_tmpdir(scratch, create=False), ignore_errors=True)
    return out


def other_fs_tmpdir(scratch, create=True):
    """A directory for TMPDIR on another file system than the scratch root (tmpfs), named after the run's scratch root so
    that the parent can remove it whatever happens to the lifetime.  Returns None where there is no such file system."""
    path = os.path.join('/dev/shm', 'emsverif-tmp-' + os.path.basename(scratch.rstrip('/')))
    if not create:
        return path
    try:
        if not os.path.isdir('/dev/shm') or os.stat('/dev/shm').st_dev == os.stat(scratch).st_dev:
            return None
        os.makedirs(path, exist_ok=True)
        return path
    except OSError:
        return None


# ----------------------------------------------------------------------------------------
# engines registry
# ----------------------------------------------------------------------------------------

def get_engine(name):
    import importlib
    mod = importlib.import_module(f'engines.{name}')
    from engines import common
    common.warm()
    return mod.ENGINE


PROPERTY_ENGINE = {
    'C08': 'clipsim', 'C09': 'clipsim', 'C11': 'bindsim', 'C12': 'floorsim',
    'C15': 'exportsim', 'C16': 'keysim', 'C17': 'savesim', 'C20': 'clisim',
}


# ----------------------------------------------------------------------------------------
# batch execution
# ----------------------------------------------------------------------------------------

def _worker_chunk(engine_name, verif_seed, tier, indices, prop):
    engine = get_engine(engine_name)
    results = []
    t0 = time.monotonic()
    for i in indices:
        rng = prng.rng_for(verif_seed, engine_name, i)
        plan = engine.gen_plan(rng, tier)
        plan['seed'] = [verif_seed, i]
        out = execute(engine, plan)
        c = out.compact()
        c['index'] = i
        keep_plan = bool(c['violations']) or c['harness_error'] or (i % 97 == 0)
        c['plan'] = plan if keep_plan else None
        results.append(c)
    return results, time.monotonic() - t0


def run_batch(engine_name, verif_seed, tier, n_runs, *, prop, workers=None, budget_s=None, chunk=8):
    """Run up to n_runs seeded plans (stops launching new chunks once budget_s elapsed)."""
    workers = workers or min(16, os.cpu_count() or 1)
    ctx = multiprocessing.get_context('fork')
    get_engine(engine_name)  # import (warm) before forking workers
    results = []
    t0 = time.monotonic()
    next_index = 0
    harness = []
    with concurrent.futures.ProcessPoolExecutor(max_workers=workers, mp_context=ctx) as pool:
        pending = set()

        def submit():
            nonlocal next_index
            if next_index >= n_runs:
                return False
            if budget_s is not None and time.monotonic() - t0 > budget_s:
                return False
            idx = list(range(next_index, min(n_runs, next_index + chunk)))
            next_index = idx[-1] + 1
            pending.add(pool.submit(_worker_chunk, engine_name, verif_seed, tier, idx, prop))
            return True

        for _ in range(workers * 2):
            if not submit():
                break
        while pending:
            done, _ = concurrent.futures.wait(pending, timeout=600, return_when=concurrent.futures.FIRST_COMPLETED)
            if not done:
                harness.append('pool stalled for 600 s')
                for f in pending:
                    f.cancel()
                break
            for f in done:
                pending.discard(f)
                try:
                    res, _dt = f.result()
                    results.extend(res)
                except Exception:
                    harness.append(traceback.format_exc())
                submit()
    results.sort(key=lambda c: c['index'])
    return results, harness, time.monotonic() - t0


# ----------------------------------------------------------------------------------------
# known findings
# ----------------------------------------------------------------------------------------

def load_known():
    if not KNOWN.exists():
        return []
    data = json.loads(KNOWN.read_text())
    return [k for k in data.get('findings', []) if k.get('status') == 'open']


def match_known(engine, v, plan, known):
    for k in known:
        if k['property'] != v['property'] or k['clause'] != v['clause']:
            continue
        if k.get('frame') is not None and k['frame'] != v['frame']:
            continue
        pred = k.get('predicate')
        if pred and not engine.predicate(pred, plan, v):
            continue
        return k
    return None


# ----------------------------------------------------------------------------------------
# minimisation (delta debugging over ops, then engine/world shrink passes)
# ----------------------------------------------------------------------------------------

def has_class(engine, plan, cls):
    out = execute(engine, plan)
    if out.harness_error:
        return False, out
    return any(vclass(v) == cls for v in out.violations), out


def minimise(engine, plan, cls, *, max_steps=150, time_budget=90.0):
    t0 = time.monotonic()
    best = copy.deepcopy(plan)
    steps = 0
    improved = True
    while improved and steps < max_steps and time.monotonic() - t0 < time_budget:
        improved = False
        for cand in engine.shrink(best):
            steps += 1
            if steps >= max_steps or time.monotonic() - t0 > time_budget:
                break
            try:
                ok, _ = has_class(engine, cand, cls)
            except Exception:
                ok = False
            if ok:
                best = cand
                improved = True
                break
    return best, steps


def write_replay(engine, plan, cls, digest, tag):
    REPLAYS.mkdir(parents=True, exist_ok=True)
    name = f"{cls[0]}-{tag}-{hashlib.sha1(repr(cls).encode()).hexdigest()[:8]}.json"
    path = REPLAYS / name
    path.write_text(json.dumps({
        'engine': engine.name, 'expect': {'property': cls[0], 'clause': cls[1], 'frame': cls[2]},
        'digest': digest, 'plan': plan,
    }, indent=1, sort_keys=True, default=_json_default))
    return path


def replay_file(path, *, quiet=False):
    data = json.loads(pathlib.Path(path).read_text())
    engine = get_engine(data['engine'])
    out = execute(engine, data['plan'])
    cls = (data['expect']['property'], data['expect']['clause'], data['expect']['frame'])
    found = any(vclass(v) == cls for v in out.violations)
    same_digest = out.digest() == data.get('digest')
    if not quiet:
        for kind, payload in out.events:
            print(f'  {kind}: {json.dumps(payload, sort_keys=True, default=_json_default)[:400]}')
        for v in out.violations:
            print('VIOLATION-DETAIL', json.dumps(v, sort_keys=True))
        if out.harness_error:
            print('HARNESS-ERROR', out.harness_error)
        print(f'replay: expected class {cls} -> {"REPRODUCED" if found else "not reproduced"}; digest {"same" if same_digest else "DIFFERENT"}')
    return found, same_digest, out


def replay_fresh(path):
    """Replay in a fresh interpreter (other hash seed); must reproduce class and digest."""
    env = dict(os.environ)
    env['PYTHONHASHSEED'] = '12345'
    env['VERIF_NO_REEXEC'] = '1'
    p = subprocess.run([sys.executable, '-m', 'sim.replay', str(path), '--quiet'], cwd=str(VERIF),
                       env=env, capture_output=True, text=True, timeout=600)
    return p.returncode == 1 and 'digest same' in p.stdout, p.stdout[-2000:] + p.stderr[-2000:]


# ----------------------------------------------------------------------------------------
# evidence
# ----------------------------------------------------------------------------------------

def write_evidence(prop, tier, seed, engine, results, wall_s, *, violations, known_hits, harness, extra=None):
    EVIDENCE.mkdir(parents=True, exist_ok=True)
    stats = collections.Counter()
    sigs = set()
    nontrivial = 0
    for c in results:
        stats.update(c['stats'])
        if c['nontrivial'].get(prop):
            nontrivial += 1
            sigs.add(json.dumps(c['signature'], sort_keys=True, default=_json_default))
    samples = [c['plan'] for c in results if c['plan'] is not None and not c['violations']][:3]
    n = len(results)
    coverage = {
        'evaluations': n,
        'distinct_nontrivial': len(sigs),
        'nontrivial_runs': nontrivial,
        'rule': engine.rule(prop),
        'samples': samples or [c['plan'] for c in results if c['plan'] is not None][:1],
        'runs_per_hour': int(n / wall_s * 3600) if wall_s > 0 else 0,
        'seeds': {'VERIF_SEED': seed, 'run_indices': [0, n - 1] if n else []},
        'simulated_time': {'unit': 'simulator events (global sequence numbers); the claimed code paths read no clock',
                           'total_events': sum(c['n_events'] for c in results)},
        'counters': {k: stats[k] for k in sorted(stats)},
        'faults_fired': {k[len('fault.'):]: stats[k] for k in sorted(stats) if k.startswith('fault.')},
        'probes': {k[len('probe.'):]: stats[k] for k in sorted(stats) if k.startswith('probe.')},
        'real_vs_stub': engine.real_vs_stub(),
        'known_findings_hit': known_hits,
        'harness_errors': len(harness),
    }
    if extra:
        coverage.update(extra)
    doc = {
        'property_id': prop, 'tier': tier, 'seed': seed, 'level': 'exploration',
        'coverage': coverage,
        'assumptions': engine.assumptions(prop),
        'wall_s': round(wall_s, 2),
        'violations': violations,
    }
    path = EVIDENCE / f'{prop}.json'
    path.write_text(json.dumps(doc, indent=1, sort_keys=True, default=_json_default))
    return path


# ----------------------------------------------------------------------------------------
# the check
# ----------------------------------------------------------------------------------------

def _sweep_stale_scratch(max_age_s=6 * 3600):
    """Scratch roots are removed after every run; a killed check can leave some behind.  Remove old ones."""
    root = pathlib.Path(tempfile.gettempdir())
    now = time.time()
    for d in list(root.glob('emsverif-*')) + list(pathlib.Path('/dev/shm').glob('emsverif-*')):
        try:
            if now - d.stat().st_mtime > max_age_s:
                shutil.rmtree(d, ignore_errors=True)
        except OSError:
            pass


def run_check(prop, tier, seed, *, n_runs=None, budget_s=None, workers=None):
    _sweep_stale_scratch()
    engine_name = PROPERTY_ENGINE[prop]
    engine = get_engine(engine_name)
    n_runs = n_runs or engine.budget(prop, tier)['runs']
    budget_s = budget_s or engine.budget(prop, tier)['seconds']
    print(f'[{prop}] engine={engine_name} tier={tier} VERIF_SEED={seed} runs<={n_runs} budget={budget_s}s', flush=True)
    t0 = time.monotonic()
    # regression replays: the minimised plans of defects that were repaired must stay quiet ("fixed" suppresses nothing)
    regress_lines, regress_n = [], 0
    for path in sorted((VERIF / 'replays' / 'fixed').glob('*.json')):
        try:
            data = json.loads(path.read_text())
        except ValueError:
            continue
        exp = data.get('expect', {})
        if data.get('engine') != engine_name:
            continue
        cls = (exp.get('property'), exp.get('clause'), exp.get('frame'))
        out = execute(engine, data['plan'])
        regress_n += 1
        same_prop = [v for v in out.violations if v['property'] == prop]
        if out.harness_error:
            continue      # a stored plan the current executor can no longer run is not evidence either way
        if any(vclass(v) == cls for v in same_prop) and cls[0] == prop:
            regress_lines.append(f'VIOLATION property={prop} replay={path}')
            print(f'  regression: the repaired defect of {path.name} is back (class {cls})')
    results, harness, wall = run_batch(engine_name, seed, tier, n_runs, prop=prop, budget_s=budget_s, workers=workers)
    for c in results:
        if c['harness_error']:
            harness.append(f"run {c['index']}: {c['harness_error']}")
    known = load_known()
    known_hits = collections.Counter()
    by_class = {}
    for c in results:
        for v in c['violations']:
            if v['property'] != prop:
                continue
            k = match_known(engine, v, c['plan'], known)
            if k is not None:
                known_hits[k['id']] += 1
                continue
            by_class.setdefault(vclass(v), []).append(c)
    for k in known:
        if k['property'] == prop and known_hits.get(k['id']):
            print(f"KNOWN-FINDING: property={prop} {k['what']} (hit {known_hits[k['id']]}x this run)")
    n_viol = 0
    lines = []
    for cls, cs in sorted(by_class.items(), key=lambda kv: repr(kv[0])):
        # smallest failing plan first
        cs.sort(key=lambda c: len(json.dumps(c['plan'], default=_json_default)))
        c = cs[0]
        plan = c['plan']
        ok, out = has_class(engine, plan, cls)
        if not ok:
            harness.append(f'violation {cls} of run {c["index"]} did not reproduce on re-execution (nondeterminism): {c["violations"][:2]}')
            continue
        small, steps = minimise(engine, plan, cls, time_budget=60 if tier == 'quick' else 240)
        # a minimised plan that now matches a known finding is that finding, not a new one
        ok2, out2 = has_class(engine, small, cls)
        if not ok2:
            small, out2 = plan, out
        v_small = [v for v in out2.violations if vclass(v) == cls][0]
        k = match_known(engine, v_small, small, known)
        if k is not None:
            known_hits[k['id']] += 1
            print(f"KNOWN-FINDING: property={prop} {k['what']} (after minimisation)")
            continue
        path = write_replay(engine, small, cls, out2.digest(), f"{seed}-{c['index']}")
        fresh_ok, log = replay_fresh(path)
        if not fresh_ok:
            harness.append(f'replay of {path} in a fresh interpreter did not reproduce:\n{log}')
        n_viol += 1
        lines.append(f'VIOLATION property={prop} replay={path}')
        print(f'  class={cls} runs={len(cs)} minimise_steps={steps} detail={v_small["detail"][:300]}')
    wall = time.monotonic() - t0
    n_viol += len(regress_lines)
    lines = regress_lines + lines
    write_evidence(prop, tier, seed, engine, results, wall, violations=n_viol,
                   known_hits=dict(known_hits), harness=harness,
                   extra={'regression_replays': {'executed': regress_n, 'reproduced': len(regress_lines),
                                                 'note': 'minimised plans of repaired defects (replays/fixed) re-executed first; none may reproduce'}})
    for line in lines:
        print(line)
    if harness:
        for h in harness[:5]:
            print('HARNESS-ERROR', h[:3000])
        print(f'[{prop}] {len(harness)} harness error(s)')
        return 1 if n_viol else 2
    print(f'[{prop}] runs={len(results)} wall={wall:.1f}s violations={n_viol} known={dict(known_hits)}')
    return 1 if n_viol else 0
