"""
World generator: abstract JSON-serialisable dataset specs with ground truth.

``gen_world(rng, ...)`` draws a spec.  ``World(spec)`` builds xarray datasets from it
(``.dataset(variant)``) and answers ground-truth questions computed from the spec alone,
never by calling emsarray:

* grid kinds, their dimensions and shapes (row-major linear order),
* per face: polygon vertex list or None (hole),
* per variable / element / extra index: the stored value (unique within a variable) or missing.

Nothing here draws random numbers except ``gen_*`` functions, which only use the rng passed in.
"""
from __future__ import annotations

import copy
import itertools
import math

import numpy
import xarray

CONVS = ['cf1d', 'cf2d', 'shoc_simple', 'shoc_standard', 'ugrid']
CONV_CLASS = {
    'cf1d': 'CFGrid1D', 'cf2d': 'CFGrid2D', 'shoc_simple': 'ShocSimple',
    'shoc_standard': 'ShocStandard', 'ugrid': 'UGrid',
}
DTYPES = ['f8', 'f4', 'i4', 'i2', 'i8', 'dt', 'td', 'b1']


# ----------------------------------------------------------------------------------------
# generation
# ----------------------------------------------------------------------------------------

_STYLE = {'digits': 9, 'near': False, 'pacific': False}


def _r(x):
    """Round to the current coordinate style (None = keep the full double mantissa)."""
    return x if _STYLE['digits'] is None else round(x, _STYLE['digits'])


def _coord(rng, lo, hi):
    """A non-round number with >= 9 significant digits (or a full mantissa)."""
    if _STYLE['near']:
        # around (0, 0): magnitudes below 10, where fixed-decimal rounding bites hardest
        span = hi - lo
        lo, hi = -0.35 * min(span, 12), 0.35 * min(span, 12)
    elif _STYLE.get('pacific') and lo >= 90:
        lo, hi = 176.0, 195.0      # a 0..360 (Pacific) grid: cells on both sides of, and wholly beyond, 180 degrees east
    return _r(rng.uniform(lo, hi))


def _axis(rng, n, lo, hi, descending):
    steps = [_r(rng.uniform(0.3, 1.7)) for _ in range(n)]
    start = _coord(rng, lo, hi)
    vals = [_r(start + sum(steps[:i])) for i in range(n)]
    if descending:
        vals = vals[::-1]
    return vals


def _axis_bounds(rng, vals):
    """Explicit, contiguous bounds that differ from the midpoint rule at the ends."""
    n = len(vals)
    sign = 1 if n == 1 or vals[-1] > vals[0] else -1
    mids = [_r((vals[i] + vals[i + 1]) / 2 + sign * _r(rng.uniform(-0.05, 0.05)))
            for i in range(n - 1)]
    first = _r(vals[0] - sign * _r(rng.uniform(0.1, 0.4)))
    last = _r(vals[-1] + sign * _r(rng.uniform(0.1, 0.4)))
    edges = [first] + mids + [last]
    return [[edges[i], edges[i + 1]] for i in range(n)]


def _node_grid(rng, ny, nx):
    """(ny+1, nx+1) sheared, jittered node grid -> valid convex-ish quads."""
    x0, y0 = _coord(rng, 100, 150), _coord(rng, -40, -10)
    shear = rng.uniform(-0.3, 0.3)
    rot = rng.uniform(-0.4, 0.4)
    dx, dy = rng.uniform(0.6, 1.4), rng.uniform(0.6, 1.4)
    grid = []
    for j in range(ny + 1):
        row = []
        for i in range(nx + 1):
            u = i * dx + shear * j + rng.uniform(-0.12, 0.12)
            v = j * dy + rng.uniform(-0.12, 0.12)
            x = x0 + u * math.cos(rot) - v * math.sin(rot)
            y = y0 + u * math.sin(rot) + v * math.cos(rot)
            row.append([_r(x), _r(y)])
        grid.append(row)
    return grid


def _gen_vars(rng, kinds, max_vars, extra_pool, *, allow_perm=True, name_pool=None,
              min_vars=1, force_names=()):
    """kinds: list of grid-kind names available for data variables."""
    names = name_pool or ['temp', 'salt', 'eta', 'u1', 'u2', 'botz', 'flag', 'wind', 'dens']
    names = list(names)
    rng.shuffle(names)
    for i, f in enumerate(force_names):
        if f in names:
            names.remove(f)
        names.insert(i, f)
    n = rng.randint(min_vars, max_vars)
    out = []
    for vi in range(n):
        kind = rng.choice(kinds + kinds + [None]) if vi else rng.choice(kinds)
        n_extra = rng.choice([0, 0, 1, 1, 2]) if kind is not None else rng.choice([0, 1, 1, 2])
        extras = rng.sample(extra_pool, min(n_extra, len(extra_pool)))
        # keep a canonical order of extras (time first) unless permuted
        extras = sorted(extras, key=lambda e: extra_pool.index(e))
        dtype = rng.choice(DTYPES)
        if dtype in ('dt', 'td') and kind is None:
            dtype = 'f8'      # a datetime variable that is not on a grid would be indistinguishable from a time coordinate
        if dtype == 'b1':
            fill, fillv = None, None      # a flag: no way of holding a missing value, must come through a clip untouched
        elif dtype in ('dt', 'td'):
            fill, fillv = None, None      # datetime64 / timedelta64 data (e.g. time of last update): NaT is its missing value
        elif dtype.startswith('f'):
            fill = rng.choice([None, None, '_FillValue', 'missing_value'])
            fillv = rng.choice([-999.0, 1e20, -1e10]) if fill else None
            if dtype == 'f4' and fillv == 1e20:
                fillv = float(numpy.float32(1e20))
        elif dtype not in ('dt', 'td'):
            fill = rng.choice([None, None, '_FillValue', 'missing_value'])
            fillv = rng.choice([-999, -1, 0, 32767 if dtype == 'i2' else 99999]) if fill else None
            if dtype == 'i8' and fill and rng.random() < 0.5:
                fillv = -9000000000
        perm = None
        if allow_perm and rng.random() < 0.35:
            perm = rng.random()  # seed for a permutation decided in World (deterministic)
        pack = None
        if dtype == 'i2' and rng.random() < 0.35:
            # packed on disk (CF scale_factor / add_offset): the *physical* values are base + ... as for any variable
            pack = {'scale': rng.choice([0.5, 0.25, 2.0]), 'offset': rng.choice([0.0, 10.0, -3.0])}
            fill, fillv = '_FillValue', -32768      # packed data always names a fill value (decoded it is floating point)
        out.append({
            'name': names[vi], 'kind': kind, 'extra': [list(e) for e in extras],
            'dtype': dtype, 'fill': fill, 'fillv': fillv, 'perm': perm, 'pack': pack,
            'missing_frac': rng.choice([0, 0, 0.15, 0.3]),
            'missing_seed': rng.randrange(1 << 30),
            'attrs': rng.choice([{}, {'long_name': f'var {vi}'}, {'units': 'psu', 'long_name': 'x'},
                                 {'source': 'model run 7', 'comment': 'as delivered'}, {'dtype_hint': 'float', 'zlib': 'no'}]),
        })
    return out


TIME_UNITS_SIMPLE = [
    'days since 1990-01-01 00:00:00 +10:00',
    'hours since 2021-11-16 12:00:00 +11:00',
    'seconds since 2000-01-01 00:00:00 +10:00',
    'days since 1990-01-01 00:00:00',
]


def gen_time(rng, name, dim, *, units_pool=None):
    n = rng.randint(1, 3)
    units = rng.choice(units_pool or TIME_UNITS_SIMPLE)
    start = rng.randint(0, 400)
    return {'name': name, 'dim': dim, 'n': n, 'units': units,
            'values': [start + k for k in range(n)]}


def gen_mesh(rng, max_faces=10):
    """Planar polygon mesh mixing 3..6-gons, from a jittered quad grid."""
    w, h = rng.choice([(1, 1), (2, 1), (1, 2), (2, 2), (3, 2), (2, 3), (3, 3), (3, 3)])
    grid = _node_grid(rng, h, w)
    nid = lambda j, i: j * (w + 1) + i  # noqa: E731
    nodes = [grid[j][i] for j in range(h + 1) for i in range(w + 1)]
    faces = []
    for j in range(h):
        for i in range(w):
            a, b, c, d = nid(j, i), nid(j, i + 1), nid(j + 1, i + 1), nid(j + 1, i)
            r = rng.random()
            if r < 0.35:
                faces += [[a, b, c], [a, c, d]]
            elif r < 0.55:
                faces += [[a, b, d], [b, c, d]]
            else:
                faces.append([a, b, c, d])
    # merge some adjacent pairs into bigger polygons (<= 6 vertices)
    def edges_of(f):
        return [(f[k], f[(k + 1) % len(f)]) for k in range(len(f))]
    for _ in range(rng.randint(0, 3)):
        if len(faces) < 3:
            break
        fi = rng.randrange(len(faces))
        A = faces[fi]
        cands = []
        for fj, B in enumerate(faces):
            if fj == fi:
                continue
            shared = [(u, v) for (u, v) in edges_of(A) if (v, u) in edges_of(B)]
            common_nodes = set(A) & set(B)
            if len(shared) == 1 and len(common_nodes) == 2 and len(A) + len(B) - 2 <= 6:
                cands.append((fj, shared[0]))
        if not cands:
            continue
        fj, (u, v) = rng.choice(cands)
        B = faces[fj]
        ia = A.index(v)
        ra = A[ia:] + A[:ia]           # starts at v ... ends at u
        ib = B.index(u)
        rb = B[ib:] + B[:ib]           # starts at u ... ends at v
        merged = ra + rb[1:-1]
        # validity: simple polygon check is done by the builder (shapely) at gen time
        import shapely
        poly = shapely.Polygon([nodes[k] for k in merged])
        if not poly.is_valid or poly.area <= 0:
            continue
        faces = [f for k, f in enumerate(faces) if k not in (fi, fj)] + [merged]
    # drop faces to carve boundary notches / reach the face budget
    while len(faces) > max_faces or (len(faces) > 2 and rng.random() < 0.2):
        faces.pop(rng.randrange(len(faces)))
    rng.shuffle(faces)
    # random rotation of each face's start vertex, keep orientation
    faces = [f[k:] + f[:k] for f in faces for k in [rng.randrange(len(f))]]
    # renumber nodes: only used ones, shuffled order
    used = sorted({n for f in faces for n in f})
    order = used[:]
    rng.shuffle(order)
    remap = {old: new for new, old in enumerate(order)}
    nodes = [nodes[old] for old in order]
    faces = [[remap[n] for n in f] for f in faces]
    edges = sorted({tuple(sorted((f[k], f[(k + 1) % len(f)]))) for f in faces for k in range(len(f))})
    edges = [list(e) for e in edges]
    rng.shuffle(edges)
    # random direction of each edge
    edges = [e[::-1] if rng.random() < 0.5 else e for e in edges]
    return nodes, faces, edges


def gen_world(rng, *, convs=CONVS, max_n=5, max_faces=10, max_vars=5, allow_holes=True,
              with_time=None, allow_perm=True, allow_coords_as_vars=True,
              time_units_pool=None, materialise=None, min_vars=1):
    conv = rng.choice(list(convs))
    style = rng.choice(['r9_far', 'r9_far', 'full_far', 'full_near', 'r9_pacific'])
    _STYLE['digits'] = 9 if style.startswith('r9') else None
    _STYLE['near'] = style == 'full_near'
    _STYLE['pacific'] = style == 'r9_pacific'
    spec = {'conv': conv, 'attrs': {'title': 'generated world'}, 'coord_style': style}
    extra_pool = []
    if with_time is None:
        with_time = rng.random() < 0.7
    tname, tdim = {'shoc_simple': ('time', 'time'), 'shoc_standard': ('t', 'record')}.get(
        conv, rng.choice([('time', 'time'), ('t', 'record')]))
    if with_time:
        spec['time'] = gen_time(rng, tname, tdim, units_pool=time_units_pool)
        extra_pool.append([tdim, spec['time']['n']])
    else:
        spec['time'] = None
    extra_pool.append(['lev', rng.randint(1, 3)])
    extra_pool.append(['band', rng.randint(1, 2)])

    if conv == 'cf1d':
        ny, nx = rng.randint(1, max_n), rng.randint(1, max_n)
        if ny == 1 and nx == 1 and rng.random() < 0.7:
            nx = 2
        # a single-point axis has no midpoint rule: emsarray needs >= 2 values without bounds
        bounds = rng.random() < 0.5
        if ny < 2 or nx < 2:
            bounds = True
        same = rng.random() < 0.5
        ydim, yvar = ('lat', 'lat') if same else ('y', rng.choice(['latitude', 'lat_c']))
        xdim, xvar = ('lon', 'lon') if same else ('x', rng.choice(['longitude', 'lon_c']))
        yvals = _axis(rng, ny, -40, -10, rng.random() < 0.4)
        xvals = _axis(rng, nx, 100, 150, rng.random() < 0.3)
        spec.update({
            'ny': ny, 'nx': nx,
            'y': {'dim': ydim, 'var': yvar, 'values': yvals,
                  'bounds': _axis_bounds(rng, yvals) if bounds else None},
            'x': {'dim': xdim, 'var': xvar, 'values': xvals,
                  'bounds': _axis_bounds(rng, xvals) if bounds else None},
            'coords_as_vars': (not same) and allow_coords_as_vars and rng.random() < 0.3,
            'detect': rng.choice(['units', 'standard_name', 'axis']),
        })
        kinds = ['face']
    elif conv in ('cf2d', 'shoc_simple'):
        ny, nx = rng.randint(1, max_n), rng.randint(1, max_n)
        bounds = rng.random() < 0.6
        if ny < 2 or nx < 2:
            bounds = True
        holes = []
        if allow_holes and bounds and ny * nx >= 4 and rng.random() < 0.4:
            k = rng.randint(1, max(1, ny * nx // 4))
            holes = sorted(rng.sample(range(ny * nx), k))
        elif allow_holes and not bounds and ny >= 3 and nx >= 3 and rng.random() < 0.35:
            # no bounds variables and cells without coordinates (land in a curvilinear river grid): emsarray derives the
            # cell edges from the neighbouring centres, which cells get a polygon is its own rule (not judged here)
            k = rng.randint(1, max(1, ny * nx // 3))
            holes = sorted(rng.sample(range(ny * nx), k))
        if conv == 'shoc_simple':
            ydim, xdim = 'j', 'i'
            yvar, xvar = rng.choice([('latitude', 'longitude'), ('y_centre', 'x_centre')])
            spec['attrs']['ems_version'] = 'v1.2.3'
        else:
            ydim, xdim = rng.choice([('y', 'x'), ('nj', 'ni')])
            yvar, xvar = rng.choice([('lat', 'lon'), ('latitude', 'longitude')])
        spec.update({
            'ny': ny, 'nx': nx, 'corners': _node_grid(rng, ny, nx), 'bounds': bounds,
            'holes': holes, 'ydim': ydim, 'xdim': xdim, 'yvar': yvar, 'xvar': xvar,
            'coords_as_vars': allow_coords_as_vars and rng.random() < 0.3,
        })
        # bounds variables held as xarray coordinates (set_coords / a CF 'coordinates' attribute) instead of data variables
        spec['bounds_as_coords'] = bool(bounds and not spec['coords_as_vars'] and rng.random() < 0.3)
        kinds = ['face']
    elif conv == 'shoc_standard':
        ny, nx = rng.randint(1, max_n), rng.randint(1, max_n)
        holes = []
        if allow_holes and ny * nx >= 4 and rng.random() < 0.35:
            # NaN nodes: choose a corner region of nodes
            k = rng.randint(1, 2)
            holes = sorted(rng.sample(range((ny + 1) * (nx + 1)), k))
        spec.update({'ny': ny, 'nx': nx, 'nodes': _node_grid(rng, ny, nx), 'nan_nodes': holes,
                     'coords_as_vars': False})
        kinds = ['face', 'left', 'back', 'node']
    else:  # ugrid
        nodes, faces, edges = gen_mesh(rng, max_faces=max_faces)
        has_edges = rng.random() < 0.6
        tables = []
        if has_edges:
            if rng.random() < 0.75:
                tables.append('edge_node')
                tables += [t for t in ('face_edge', 'edge_face', 'face_face') if rng.random() < 0.45]
            else:
                # no edge-node table: the edge numbering is the one the face-edge table uses
                # (the edge-face table carries the edge dimension, so the dimension exists in the file)
                tables += ['face_edge', 'edge_face']
                tables += [t for t in ('face_face',) if rng.random() < 0.5]
        elif rng.random() < 0.4:
            tables.append('face_face')
        maxn = max(len(f) for f in faces)
        ragged = any(len(f) != maxn for f in faces)
        fill_repr = rng.choice(['attr', 'nan']) if ragged else rng.choice(['attr', 'nan', 'none'])
        spec.update({
            'nodes': nodes, 'faces': faces, 'edges': edges if has_edges else None,
            'start_index': rng.choice([0, 1]), 'fill_repr': fill_repr,
            # start_index is a per-variable attribute: tables of one mesh may legally differ
            'start_index_of': {t: rng.choice([0, 1]) for t in tables} if rng.random() < 0.3 else {},
            'transposed': sorted(t for t in ['face_node'] + tables if rng.random() < 0.25),
            'tables': tables, 'edge_dim_attr': has_edges and rng.random() < 0.6,
            'face_dim_attr': rng.random() < 0.6 or 'face_node' in [],
            'conn_dtype': rng.choice(['i4', 'i4', 'i2', 'i8', 'i1']),      # i1: the traditional all-nines fill of a table may not fit its type
            # the size-2 dimension of the edge tables: the conventional name or any other
            'two_dim': rng.choice(['Two', 'Two', 'nv2', 'pair']),
            'face_coords': rng.random() < 0.3,
            'edge_coords': has_edges and rng.random() < 0.35,
            'coords_as_vars': False,
        })
        spec['attrs']['Conventions'] = rng.choice(['UGRID-1.0', 'CF-1.6, UGRID-1.0', 'CF-1.6, UGRID-1.0', ['CF-1.8', 'UGRID-1.0']])
        kinds = ['face', 'node'] + (['edge'] if has_edges else [])
    spec['vars'] = _gen_vars(rng, kinds, max_vars, extra_pool, allow_perm=allow_perm,
                             min_vars=min_vars)
    spec['materialise'] = materialise or rng.choice(['memory', 'memory', 'file', 'file_raw', 'chunked', 'chunked_auto'])
    spec['file_fill_style'] = rng.choice([None, None, 'xarray_default', 'hole_fill'])
    return spec


DEPTH_NAMES = {
    'shoc_simple': [('zc', 'k'), ('zcsed', 'ksed')],
    'shoc_standard': [('z_centre', 'k_centre'), ('z_centre_sed', 'k_centre_sed'), ('z_grid', 'k_grid')],
    None: [('depth', 'depth'), ('zlev', 'kz'), ('sed_depth', 'ksed')],
}


def add_depths(rng, spec, *, max_layers=4, n_depths=None, boundary_layers=0.0):
    """Give a world 1-3 depth coordinates on distinct dimensions and put float variables on them."""
    pool = list(DEPTH_NAMES.get(spec['conv'], DEPTH_NAMES[None]))
    n = n_depths or rng.choice([1, 2, 2, 3])
    n = min(n, len(pool))
    chosen = pool[:n] if spec['conv'].startswith('shoc') else rng.sample(pool, n)
    depths = []
    for name, dim in chosen:
        nk = rng.randint(2, max_layers)
        if boundary_layers and rng.random() < boundary_layers:
            # layer counts around the limits of the narrow integer types (a count of 256 wet layers does not fit 8 bits)
            nk = rng.choice([127, 128, 129, 255, 256, 257])
        steps = [round(rng.uniform(0.5, 3.0), 3) for _ in range(nk)]
        phys = [round(0.25 + sum(steps[:k]), 3) for k in range(nk)]       # increasing = deeper
        positive = rng.choice(['up', 'down'])
        order = rng.choice(['shallow_to_deep', 'deep_to_shallow'])
        vals = phys if order == 'shallow_to_deep' else phys[::-1]
        if positive == 'up':
            vals = [-v for v in vals]
        # CF: the value of `positive` is case insensitive
        written = rng.choice([positive, positive, positive.upper(), positive.capitalize()])
        attrs = {'positive': written, 'long_name': name}
        if rng.random() < 0.5:
            attrs['axis'] = 'Z'
            if rng.random() < 0.3:
                # no `positive` attribute: the sign convention has to be guessed from the values (emsarray warns and guesses)
                del attrs['positive']
        depths.append({'name': name, 'dim': dim, 'values': vals, 'attrs': attrs, 'positive': positive,
                       'order': order, 'nk': nk})
        if rng.random() < 0.2:
            depths[-1]['aux'] = f'dz_{dim}'
    if rng.random() < 0.15 and not spec['conv'].startswith('shoc'):
        # a second coordinate describing the *same* layers in the other sign convention (e.g. height next to depth)
        d0 = depths[0]
        other = 'up' if d0['positive'] == 'down' else 'down'
        depths.append({'name': d0['name'] + '_alt', 'dim': d0['dim'], 'values': [-v for v in d0['values']],
                       'attrs': {'positive': other, 'long_name': 'alternative sign convention'}, 'positive': other,
                       'order': d0['order'], 'nk': d0['nk'], 'alias_of': d0['name']})
    spec['depths'] = depths
    spec['floor_seed'] = rng.randrange(1 << 30)
    # put variables on depth dimensions: floats, no fill attribute, no random missing cells
    any_depth = False
    for vi, v in enumerate(spec['vars']):
        if v['kind'] is None:
            continue
        if rng.random() < 0.85 or not any_depth:
            primary = [d_ for d_ in depths if not d_.get('alias_of')]
            d = primary[vi % len(primary)] if rng.random() < 0.7 else rng.choice(primary)
            v['depth'] = d['name']
            v['dtype'] = rng.choice(['f8', 'f4'])
            v['fill'] = None
            v['fillv'] = None
            v['pack'] = None
            v['missing_frac'] = 0
            pos = rng.randint(0, len(v['extra']))
            v['extra'] = v['extra'][:pos] + [[d['dim'], d['nk']]] + v['extra'][pos:]
            any_depth = True
    return spec


# ----------------------------------------------------------------------------------------
# building + ground truth
# ----------------------------------------------------------------------------------------

LAT_ATTRS = {
    'units': {'units': 'degrees_north'},
    'standard_name': {'standard_name': 'latitude'},
    'axis': {'axis': 'Y'},
}
LON_ATTRS = {
    'units': {'units': 'degrees_east'},
    'standard_name': {'standard_name': 'longitude'},
    'axis': {'axis': 'X'},
}


def _np_dtype(code):
    return numpy.dtype({'f8': 'float64', 'f4': 'float32', 'i4': 'int32', 'i2': 'int16', 'i8': 'int64', 'i1': 'int8',
                        'dt': 'datetime64[ns]', 'td': 'timedelta64[ns]', 'b1': 'bool'}[code])


def parse_time_units(units):
    """Own arithmetic: '<period> since Y-M-D[ T]h:m[:s][ ][+-hh[:mm]]' -> (period_seconds, epoch_utc_seconds_from_1970)"""
    import datetime
    import re
    m = re.match(
        r'^\s*(\w+)\s+since\s+(\d{1,4})-(\d{1,2})-(\d{1,2})'
        r'(?:[T ]\s*(\d{1,2}):(\d{2})(?::(\d{2}))?)?\s*(?:([+-])(\d{1,2})(?::?(\d{2}))?|Z)?\s*$', units)
    if not m:
        raise ValueError(f'cannot parse {units!r}')
    period = {'seconds': 1, 'second': 1, 'minutes': 60, 'minute': 60, 'hours': 3600, 'hour': 3600,
              'days': 86400, 'day': 86400}[m.group(1)]
    y, mo, d = int(m.group(2)), int(m.group(3)), int(m.group(4))
    hh, mm, ss = int(m.group(5) or 0), int(m.group(6) or 0), int(m.group(7) or 0)
    off = 0
    if m.group(8):
        off = int(m.group(9)) * 60 + int(m.group(10) or 0)
        if m.group(8) == '-':
            off = -off
    local = datetime.datetime(y, mo, d, hh, mm, ss)
    epoch = (local - datetime.datetime(1970, 1, 1)).total_seconds() - off * 60
    return period, int(epoch)


class World:
    def __init__(self, spec):
        self.spec = spec
        self.conv = spec['conv']
        self._init_kinds()
        self._init_vars()

    # -- kinds ---------------------------------------------------------------------------
    def _init_kinds(self):
        s = self.spec
        c = self.conv
        if c == 'cf1d':
            self.kinds = {'face': {'dims': [s['y']['dim'], s['x']['dim']], 'shape': [s['ny'], s['nx']]}}
        elif c in ('cf2d', 'shoc_simple'):
            self.kinds = {'face': {'dims': [s['ydim'], s['xdim']], 'shape': [s['ny'], s['nx']]}}
        elif c == 'shoc_standard':
            ny, nx = s['ny'], s['nx']
            self.kinds = {
                'face': {'dims': ['j_centre', 'i_centre'], 'shape': [ny, nx]},
                'left': {'dims': ['j_left', 'i_left'], 'shape': [ny, nx + 1]},
                'back': {'dims': ['j_back', 'i_back'], 'shape': [ny + 1, nx]},
                'node': {'dims': ['j_node', 'i_node'], 'shape': [ny + 1, nx + 1]},
            }
        else:
            self.kinds = {
                'face': {'dims': ['nMesh2_face'], 'shape': [len(s['faces'])]},
                'node': {'dims': ['nMesh2_node'], 'shape': [len(s['nodes'])]},
            }
            if s['edges'] is not None:
                self.kinds['edge'] = {'dims': ['nMesh2_edge'], 'shape': [len(s['edges'])]}
        for k in self.kinds.values():
            k['size'] = int(numpy.prod(k['shape']))

    # -- variables -----------------------------------------------------------------------
    def _init_vars(self):
        self.vars = {}
        for vi, v in enumerate(self.spec['vars']):
            kind = v['kind']
            sdims = list(self.kinds[kind]['dims']) if kind else []
            sshape = list(self.kinds[kind]['shape']) if kind else []
            edims = [e[0] for e in v['extra']]
            eshape = [e[1] for e in v['extra']]
            dims = edims + sdims
            if v.get('perm') is not None and len(dims) > 1:
                import random
                r = random.Random(int(v['perm'] * (1 << 30)))
                dims = dims[:]
                r.shuffle(dims)
            gsize = int(numpy.prod(sshape)) if kind else 1
            etotal = int(numpy.prod(eshape)) if eshape else 1
            wide = v['dtype'] in ('f8', 'i4', 'i8', 'dt', 'td')
            base = (vi + 1) * 100000 if wide else (vi + 1)
            if v['dtype'] == 'i8':
                base += 3000000000 * (vi + 1)      # values that do not fit 32 bits (exact in float64)
            shift = 50000 if wide else gsize * etotal + 3
            info = dict(v)
            info.update({'sdims': sdims, 'sshape': sshape, 'edims': edims, 'eshape': eshape,
                         'dims': dims, 'gsize': gsize, 'etotal': etotal, 'base': base, 'shift': shift})
            # initial missing elements (only where representable)
            can_miss = v['dtype'].startswith('f') or v['fill'] is not None or v['dtype'] in ('dt', 'td')
            info['can_miss'] = can_miss
            miss = set()
            # datetime-like data starts without missing elements: xarray cannot lazily encode an all-NaT datetime array
            # with an integer on-disk type (ValueError from its encoder, with or without emsarray), so a clip whose kept
            # cells are all NaT could not be written again -- an upstream limit, not a statement about emsarray
            if can_miss and v['missing_frac'] and kind and v['dtype'] not in ('dt', 'td'):
                import random
                r = random.Random(v['missing_seed'])
                for lin in range(gsize):
                    if r.random() < v['missing_frac']:
                        miss.add(lin)
            info['missing'] = miss
            if v.get('depth'):
                ddim = self.depth(v['depth'])['dim']
                info['depth_ix'] = edims.index(ddim)
                info['depth_dim'] = ddim
            self.vars[v['name']] = info

    def value(self, name, lin, eidx, variant=0):
        """Stored value of variable at spatial linear index and extra index tuple; None = missing."""
        v = self.vars[name]
        if lin in v['missing'] or v.get('all_missing'):
            return None
        if v.get('depth'):
            k = eidx[v['depth_ix']]
            if not self.wet_layers(v['depth'], v['kind'])[lin][self.physical_layer(v['depth'], k)]:
                return None
        elin = int(numpy.ravel_multi_index(eidx, v['eshape'])) if v['eshape'] else 0
        raw = v['base'] + variant * v['shift'] + elin * v['gsize'] + lin
        if v['dtype'] == 'b1':
            return float((raw * 7 + raw // 3) % 2)      # a reproducible pattern of flags
        if v.get('pack'):
            # the stored integer is `raw`; the physical value it denotes is raw * scale_factor + add_offset (exact: binary fractions)
            return raw * v['pack']['scale'] + v['pack']['offset']
        return raw

    # -- depth / sea floor ------------------------------------------------------------------
    def depth(self, name):
        return next(d for d in self.spec['depths'] if d['name'] == name)

    def physical_layer(self, depth_name, k):
        """0 = shallowest physical layer for stored index k."""
        d = self.depth(depth_name)
        return k if d['order'] == 'shallow_to_deep' else d['nk'] - 1 - k

    def stored_index(self, depth_name, p):
        d = self.depth(depth_name)
        return p if d['order'] == 'shallow_to_deep' else d['nk'] - 1 - p

    def wet_layers(self, depth_name, kind):
        """per linear index of `kind`: list of booleans over *physical* layers (0 = shallowest): does the layer hold data.
        Static, shared by all variables on (depth, kind).  Mostly contiguous from the surface (a sea floor); sometimes the
        top layers are missing (above the free surface) or one mid-water layer is missing."""
        key = (depth_name, kind)
        cache = self.__dict__.setdefault('_wet', {})
        if key not in cache:
            import random
            d = self.depth(depth_name)
            nk = d['nk']
            r = random.Random(f"{self.spec['floor_seed']}/{depth_name}/{kind}")
            size = self.kinds[kind]['size']
            style = r.choice(['random', 'random', 'all_wet', 'staircase', 'ragged'])
            cols = []
            for i in range(size):
                if style == 'all_wet':
                    w = nk
                elif style == 'staircase':
                    w = i % (nk + 1)
                elif nk > 16:
                    w = r.choice([0, nk, nk, nk - 1, r.randint(0, nk)])     # long columns: mostly dry, full or one short of full
                else:
                    w = r.randint(0, nk)
                col = [p < w for p in range(nk)]
                if style == 'ragged' and w >= 2:
                    q = r.random()
                    if q < 0.4:
                        col[0] = False                      # surface layer missing
                    elif q < 0.7 and w >= 3:
                        col[r.randint(1, w - 2)] = False    # a mid-water gap
                cols.append(col)
            cache[key] = cols
        return cache[key]

    def deepest_wet(self, depth_name, kind, lin):
        col = self.wet_layers(depth_name, kind)[lin]
        wet = [p for p, ok in enumerate(col) if ok]
        return wet[-1] if wet else None

    def floor_array(self, name, variant=0):
        """Expected ocean-floor reduction of a depth variable: float64 with dims (edims minus depth..., 'lin')."""
        v = self.vars[name]
        dix = v['depth_ix']
        eshape = [n for i, n in enumerate(v['eshape']) if i != dix]
        out = numpy.full(eshape + [v['gsize']], numpy.nan)
        for eidx in itertools.product(*[range(n) for n in eshape]):
            for lin in range(v['gsize']):
                deepest = self.deepest_wet(v['depth'], v['kind'], lin)
                if deepest is None:
                    continue
                k = self.stored_index(v['depth'], deepest)
                full = eidx[:dix] + (k,) + eidx[dix:]
                out[eidx + (lin,)] = self.value(name, lin, full, variant)
        return out

    def canonical_array(self, name, variant=0):
        """float64 array with dims (edims..., 'lin'), NaN for missing."""
        v = self.vars[name]
        arr = numpy.empty(v['eshape'] + [v['gsize']], dtype='float64')
        for eidx in itertools.product(*[range(n) for n in v['eshape']]):
            for lin in range(v['gsize']):
                val = self.value(name, lin, eidx, variant)
                arr[eidx + (lin,)] = numpy.nan if val is None else val
        return arr

    def _var_data_array(self, name, variant):
        v = self.vars[name]
        canon = self.canonical_array(name, variant)          # (e..., lin)
        full = canon.reshape(v['eshape'] + v['sshape'])       # (e..., s...)
        src_dims = v['edims'] + v['sdims']
        dtype = _np_dtype(v['dtype'])
        missing = numpy.isnan(full)
        attrs = dict(v['attrs'])
        if v['dtype'] in ('dt', 'td'):
            # the canonical number is a count of seconds (since 2000-01-01 for datetimes)
            secs = numpy.where(missing, 0, full).astype('int64')
            attrs.pop('units', None)        # the units of a datetime-like variable belong to its encoding
            if v['dtype'] == 'dt':
                data = (numpy.datetime64('2000-01-01T00:00:00', 's') + secs.astype('timedelta64[s]')).astype('datetime64[ns]')
                data = numpy.where(missing, numpy.datetime64('NaT'), data)
            else:
                data = secs.astype('timedelta64[s]').astype('timedelta64[ns]')
                data = numpy.where(missing, numpy.timedelta64('NaT'), data)
            da = xarray.DataArray(data, dims=src_dims, attrs=attrs)
            if v['dims'] != src_dims:
                da = da.transpose(*v['dims'])
            return da
        if v.get('pack'):
            # raw (undecoded) form: stored = (physical - add_offset) / scale_factor, exactly representable by construction
            stored = numpy.round((full - v['pack']['offset']) / v['pack']['scale'])
            attrs['scale_factor'] = numpy.float64(v['pack']['scale'])
            attrs['add_offset'] = numpy.float64(v['pack']['offset'])
            full = stored
        if v['fill'] is not None:
            fillv = v['fillv']
            data = numpy.where(missing, fillv, full).astype(dtype)
            attrs[v['fill']] = dtype.type(fillv)
        elif dtype.kind == 'f':
            data = full.astype(dtype)
        else:
            assert not missing.any()
            data = full.astype(dtype)
        da = xarray.DataArray(data, dims=src_dims, attrs=attrs)
        if v['dims'] != src_dims:
            da = da.transpose(*v['dims'])
        return da

    # -- polygons ------------------------------------------------------------------------
    def polygons(self):
        """list over face linear index of vertex lists [(x, y), ...] (open ring) or None"""
        s = self.spec
        c = self.conv
        out = []
        if c == 'cf1d':
            yb, xb = self._cf1d_bounds('y'), self._cf1d_bounds('x')
            for j in range(s['ny']):
                for i in range(s['nx']):
                    out.append([(xb[i][0], yb[j][0]), (xb[i][1], yb[j][0]),
                                (xb[i][1], yb[j][1]), (xb[i][0], yb[j][1])])
        elif c in ('cf2d', 'shoc_simple'):
            if not s['bounds']:
                return None   # derived by emsarray; not explicit
            g = s['corners']
            holes = set(s['holes'])
            for j in range(s['ny']):
                for i in range(s['nx']):
                    if j * s['nx'] + i in holes:
                        out.append(None)
                    else:
                        out.append([tuple(g[j][i]), tuple(g[j][i + 1]), tuple(g[j + 1][i + 1]), tuple(g[j + 1][i])])
        elif c == 'shoc_standard':
            g = s['nodes']
            nx = s['nx']
            nan = set(s['nan_nodes'])
            isnan = lambda j, i: (j * (nx + 1) + i) in nan  # noqa: E731
            for j in range(s['ny']):
                for i in range(nx):
                    corners = [(j, i), (j, i + 1), (j + 1, i + 1), (j + 1, i)]
                    if any(isnan(*c_) for c_ in corners):
                        out.append(None)
                    else:
                        out.append([tuple(g[a][b]) for a, b in corners])
        else:
            for f in s['faces']:
                out.append([tuple(s['nodes'][n]) for n in f])
        return out

    def explicit_geometry(self):
        s = self.spec
        if self.conv == 'cf1d':
            return s['y']['bounds'] is not None
        if self.conv in ('cf2d', 'shoc_simple'):
            return bool(s['bounds'])
        return True

    def _cf1d_bounds(self, ax):
        a = self.spec[ax]
        if a['bounds'] is not None:
            return a['bounds']
        vals = a['values']
        # midpoint rule (C06's definition); only used where the statement pins it down
        mids = [vals[0] - (vals[1] - vals[0]) / 2] + \
               [(vals[k] + vals[k + 1]) / 2 for k in range(len(vals) - 1)] + \
               [vals[-1] + (vals[-1] - vals[-2]) / 2]
        return [[mids[k], mids[k + 1]] for k in range(len(vals))]

    # -- time ----------------------------------------------------------------------------
    def time_instants(self):
        """UTC seconds since 1970 per time step, by the oracle's own arithmetic."""
        t = self.spec['time']
        if not t:
            return None
        period, epoch = parse_time_units(t['units'])
        return [epoch + period * n for n in t['values']]

    def _time_variable(self, variant=0):
        t = self.spec['time']
        # another dataset on the same geometry (variant 1, 2, ...) covers another period: same number of records, later instants
        secs = [x + variant * 37 * 86400 for x in self.time_instants()]
        vals = numpy.array(secs, dtype='int64').astype('datetime64[s]').astype('datetime64[ns]')
        var = xarray.Variable([t['dim']], vals, attrs={'long_name': 'Time', 'standard_name': 'time'})
        var.encoding.update({'units': t['units'], 'calendar': t.get('calendar', 'proleptic_gregorian'),
                             'dtype': numpy.dtype('float64')})
        return var

    # -- dataset -------------------------------------------------------------------------
    def dataset(self, variant=0):
        s = self.spec
        c = self.conv
        data_vars, coords = {}, {}
        attrs = dict(s['attrs'])
        if c == 'cf1d':
            self._build_cf1d(data_vars, coords)
        elif c in ('cf2d', 'shoc_simple'):
            self._build_cf2d(data_vars, coords)
        elif c == 'shoc_standard':
            self._build_shoc_standard(data_vars, coords)
        else:
            self._build_ugrid(data_vars, coords)
        if s['time']:
            coords[s['time']['name']] = self._time_variable(variant)
            if s.get('analysis_time'):
                # a second time-like variable that is not the time coordinate (CF forecast_reference_time): a scalar
                at = xarray.Variable((), numpy.datetime64('2001-02-03T04:00:00', 'ns'),
                                     attrs={'long_name': 'analysis time', 'standard_name': 'forecast_reference_time'})
                at.encoding.update({'units': 'hours since 2000-01-01 00:00:00', 'calendar': 'proleptic_gregorian', 'dtype': numpy.dtype('float64')})
                coords['analysis_time'] = at
        for name in self.vars:
            data_vars[name] = self._var_data_array(name, variant)
        for d in self.spec.get('depths', []) or []:
            self._build_depth(d, data_vars, coords)
        if s.get('array_attrs'):
            # array-valued attributes (CF valid_range) on the floating point geometry variables
            for name in self.geometry_names():
                var = coords.get(name, data_vars.get(name))
                if var is not None and getattr(var, 'ndim', 0) > 0 and numpy.asarray(var.values).dtype.kind == 'f':
                    vals = numpy.asarray(var.values)
                    if numpy.isfinite(vals).any():
                        var.attrs['valid_range'] = numpy.array([numpy.nanmin(vals) - 1.0, numpy.nanmax(vals) + 1.0])
        ds = xarray.Dataset(data_vars=data_vars, coords=coords, attrs=attrs)
        return ds

    def _build_depth(self, d, data_vars, coords):
        attrs = dict(d.get('attrs', {}))
        var = xarray.Variable([d['dim']], numpy.array(d['values'], dtype='float64'), attrs=attrs)
        coords[d['name']] = var
        if d.get('aux'):
            # another coordinate on the layer dimension that is not a depth coordinate (layer thickness)
            coords[d['aux']] = xarray.Variable([d['dim']], numpy.arange(1, d['nk'] + 1, dtype='float64') * 0.5,
                                               attrs={'long_name': 'layer thickness', 'units': 'm'})

    def _build_cf1d(self, data_vars, coords):
        s = self.spec
        target = data_vars if s['coords_as_vars'] else coords
        for ax, table in (('y', LAT_ATTRS), ('x', LON_ATTRS)):
            a = s[ax]
            attrs = dict(table[s['detect']])
            attrs['long_name'] = ax
            if a['bounds'] is not None:
                bname = a['var'] + '_bnds'
                attrs['bounds'] = bname
                data_vars[bname] = xarray.DataArray(numpy.array(a['bounds'], dtype='float64'), dims=[a['dim'], 'nv'])
            target[a['var']] = xarray.Variable([a['dim']], numpy.array(a['values'], dtype='float64'), attrs=attrs)

    def _cf2d_arrays(self):
        s = self.spec
        if isinstance(s['corners'], dict):
            # a large grid given by a formula instead of a list (the plan stays small): a sheared, slightly curved lattice
            f = s['corners']
            j, i = numpy.meshgrid(numpy.arange(s['ny'] + 1, dtype='float64'), numpy.arange(s['nx'] + 1, dtype='float64'), indexing='ij')
            gx = f['x0'] + i * f['dx'] + j * f['skew'] * f['dx'] + (j * j) * 1e-7
            gy = f['y0'] + j * f['dy'] + i * f['skew'] * f['dy'] * 0.5 + (i * i) * 1e-7
            g = numpy.stack([gx, gy], axis=-1)
        else:
            g = numpy.array(s['corners'], dtype='float64')  # (ny+1, nx+1, 2)
        bnds = numpy.stack([g[:-1, :-1], g[:-1, 1:], g[1:, 1:], g[1:, :-1]], axis=2)  # (ny, nx, 4, 2)
        centre = bnds.mean(axis=2)
        holes = s['holes']
        for h in holes:
            j, i = divmod(h, s['nx'])
            bnds[j, i] = numpy.nan
            centre[j, i] = numpy.nan
        return centre, bnds

    def _build_cf2d(self, data_vars, coords):
        s = self.spec
        centre, bnds = self._cf2d_arrays()
        dims = [s['ydim'], s['xdim']]
        target = data_vars if s['coords_as_vars'] else coords
        for var, comp, sn, units in ((s['yvar'], 1, 'latitude', 'degrees_north'), (s['xvar'], 0, 'longitude', 'degrees_east')):
            attrs = {'standard_name': sn, 'units': units, 'long_name': sn}
            if s['bounds']:
                bname = var + '_bnds'
                attrs['bounds'] = bname
                btarget = coords if s.get('bounds_as_coords') else data_vars
                btarget[bname] = xarray.Variable(dims + ['nv'], bnds[..., comp].copy())
            target[var] = xarray.Variable(dims, centre[..., comp].copy(), attrs=attrs)

    def _build_shoc_standard(self, data_vars, coords):
        s = self.spec
        g = numpy.array(s['nodes'], dtype='float64')
        nx = s['nx']
        for n in s['nan_nodes']:
            j, i = divmod(n, nx + 1)
            g[j, i] = numpy.nan
        centre = (g[:-1, :-1] + g[:-1, 1:] + g[1:, 1:] + g[1:, :-1]) / 4
        left = (g[:-1, :] + g[1:, :]) / 2
        back = (g[:, :-1] + g[:, 1:]) / 2
        for kind, arr, (yn, xn) in (
            ('face', centre, ('y_centre', 'x_centre')), ('left', left, ('y_left', 'x_left')),
            ('back', back, ('y_back', 'x_back')), ('node', g, ('y_grid', 'x_grid')),
        ):
            dims = self.kinds[kind]['dims']
            coords[yn] = xarray.Variable(dims, arr[..., 1].copy(), attrs={'units': 'degrees_north', 'long_name': yn})
            coords[xn] = xarray.Variable(dims, arr[..., 0].copy(), attrs={'units': 'degrees_east', 'long_name': xn})

    # UGRID ----------------------------------------------------------------------------
    def mesh_tables(self):
        """Reference (0-based, python lists with None for missing) connectivity tables."""
        s = self.spec
        faces = s['faces']
        maxn = max(len(f) for f in faces)
        face_node = [f + [None] * (maxn - len(f)) for f in faces]
        out = {'face_node': face_node}
        if s['edges'] is not None:
            edges = s['edges']
            lookup = {frozenset(e): k for k, e in enumerate(edges)}
            face_edge = []
            for f in faces:
                row = [lookup[frozenset((f[k], f[(k + 1) % len(f)]))] for k in range(len(f))]
                face_edge.append(row + [None] * (maxn - len(f)))
            edge_face = [[] for _ in edges]
            for fi, row in enumerate(face_edge):
                for e in row:
                    if e is not None:
                        edge_face[e].append(fi)
            edge_face = [r + [None] * (2 - len(r)) for r in edge_face]
            out.update({'edge_node': [list(e) for e in edges], 'face_edge': face_edge, 'edge_face': edge_face})
        # face_face: neighbours sharing an edge, listed in the order of the face's edges
        pair_faces = {}
        for fi, f in enumerate(faces):
            for k in range(len(f)):
                pair_faces.setdefault(frozenset((f[k], f[(k + 1) % len(f)])), []).append(fi)
        face_face = []
        for fi, f in enumerate(faces):
            row = []
            for k in range(len(f)):
                others = [o for o in pair_faces[frozenset((f[k], f[(k + 1) % len(f)]))] if o != fi]
                if others:
                    row.append(others[0])
            face_face.append(row + [None] * (maxn - len(row)))
        out['face_face'] = face_face
        return out

    CONN_NAMES = {'face_node': 'Mesh2_face_nodes', 'edge_node': 'Mesh2_edge_nodes',
                  'face_edge': 'Mesh2_face_edges', 'edge_face': 'Mesh2_edge_faces',
                  'face_face': 'Mesh2_face_links'}
    CONN_DIMS = {'face_node': ('nMesh2_face', 'nMaxMesh2_face_nodes'), 'edge_node': ('nMesh2_edge', 'Two'),
                 'face_edge': ('nMesh2_face', 'nMaxMesh2_face_nodes'), 'edge_face': ('nMesh2_edge', 'Two'),
                 'face_face': ('nMesh2_face', 'nMaxMesh2_face_nodes')}

    def conn_dims(self, table):
        two = self.spec.get('two_dim', 'Two')
        return tuple(two if d == 'Two' else d for d in self.CONN_DIMS[table])

    def start_index(self, table):
        return (self.spec.get('start_index_of') or {}).get(table, self.spec['start_index'])

    def conn_fill(self):
        return {'i1': 99, 'i2': 9999, 'i4': 999999, 'i8': 999999}[self.spec['conn_dtype']]

    def _conn_array(self, table, rows):
        s = self.spec
        si = self.start_index(table)
        fill = self.conn_fill()
        has_missing = any(x is None for r in rows for x in r)
        repr_ = s['fill_repr']
        name = self.CONN_NAMES[table]
        dims = list(self.conn_dims(table))
        attrs = {'cf_role': table + '_connectivity', 'long_name': table, 'start_index': si}
        if repr_ == 'nan':
            data = numpy.array([[numpy.nan if x is None else x + si for x in r] for r in rows], dtype='float64')
        else:
            dtype = _np_dtype(s['conn_dtype'])
            data = numpy.array([[fill if x is None else x + si for x in r] for r in rows], dtype=dtype)
            if repr_ == 'attr' or has_missing:
                attrs['_FillValue'] = dtype.type(fill)
        da = xarray.DataArray(data, dims=dims, attrs=attrs)
        if table in s['transposed']:
            da = da.transpose()
        return name, da

    def _build_ugrid(self, data_vars, coords):
        s = self.spec
        nodes = numpy.array(s['nodes'], dtype='float64')
        tables = self.mesh_tables()
        mesh_attrs = {
            'cf_role': 'mesh_topology', 'long_name': 'Topology data of 2D unstructured mesh',
            'topology_dimension': 2, 'node_coordinates': 'Mesh2_node_x Mesh2_node_y',
            'face_node_connectivity': self.CONN_NAMES['face_node'],
        }
        if s['face_dim_attr'] or 'face_node' in s['transposed']:
            mesh_attrs['face_dimension'] = 'nMesh2_face'
        if s['edge_dim_attr'] or 'edge_node' not in s['tables'] or any(t in s['transposed'] for t in ('edge_node', 'edge_face')):
            if s['edges'] is not None:
                mesh_attrs['edge_dimension'] = 'nMesh2_edge'
        data_vars['Mesh2'] = None  # placeholder keeps variable order; filled in below
        data_vars['Mesh2_node_x'] = xarray.DataArray(nodes[:, 0].copy(), dims=['nMesh2_node'], attrs={
            'standard_name': 'longitude', 'units': 'degrees_east', 'long_name': 'node x'})
        data_vars['Mesh2_node_y'] = xarray.DataArray(nodes[:, 1].copy(), dims=['nMesh2_node'], attrs={
            'standard_name': 'latitude', 'units': 'degrees_north', 'long_name': 'node y'})
        for table in ['face_node'] + list(s['tables']):
            name, da = self._conn_array(table, tables[table])
            data_vars[name] = da
            if table != 'face_node':
                mesh_attrs[table + '_connectivity'] = name
        if s.get('face_coords'):
            cx = [float(numpy.mean([s['nodes'][n][0] for n in f])) for f in s['faces']]
            cy = [float(numpy.mean([s['nodes'][n][1] for n in f])) for f in s['faces']]
            mesh_attrs['face_coordinates'] = 'Mesh2_face_x Mesh2_face_y'
            data_vars['Mesh2_face_x'] = xarray.DataArray(numpy.array(cx), dims=['nMesh2_face'], attrs={'units': 'degrees_east'})
            data_vars['Mesh2_face_y'] = xarray.DataArray(numpy.array(cy), dims=['nMesh2_face'], attrs={'units': 'degrees_north'})
        if s.get('edge_coords') and s['edges'] is not None:
            ex = [float(numpy.mean([s['nodes'][n][0] for n in e])) for e in s['edges']]
            ey = [float(numpy.mean([s['nodes'][n][1] for n in e])) for e in s['edges']]
            mesh_attrs['edge_coordinates'] = 'Mesh2_edge_x Mesh2_edge_y'
            data_vars['Mesh2_edge_x'] = xarray.DataArray(numpy.array(ex), dims=['nMesh2_edge'], attrs={'units': 'degrees_east', 'long_name': 'edge x'})
            data_vars['Mesh2_edge_y'] = xarray.DataArray(numpy.array(ey), dims=['nMesh2_edge'], attrs={'units': 'degrees_north', 'long_name': 'edge y'})
        data_vars['Mesh2'] = xarray.DataArray(numpy.int32(0), attrs=mesh_attrs)

    # -- names of geometry variables per the generator (never via emsarray) --------------
    def geometry_names(self):
        s = self.spec
        c = self.conv
        if c == 'cf1d':
            names = [s['x']['var'], s['y']['var']]
            for ax in ('x', 'y'):
                if s[ax]['bounds'] is not None:
                    names.append(s[ax]['var'] + '_bnds')
            return names
        if c in ('cf2d', 'shoc_simple'):
            names = [s['xvar'], s['yvar']]
            if s['bounds']:
                names += [s['xvar'] + '_bnds', s['yvar'] + '_bnds']
            return names
        if c == 'shoc_standard':
            return ['x_centre', 'y_centre', 'x_grid', 'y_grid', 'x_left', 'y_left', 'x_back', 'y_back']
        names = ['Mesh2', 'Mesh2_face_nodes', 'Mesh2_node_x', 'Mesh2_node_y']
        names += [self.CONN_NAMES[t] for t in s['tables']]
        if s.get('face_coords'):
            names += ['Mesh2_face_x', 'Mesh2_face_y']
        if s.get('edge_coords') and s['edges'] is not None:
            names += ['Mesh2_edge_x', 'Mesh2_edge_y']
        return names


def shrink_world_candidates(spec):
    """Yield simpler specs (generic passes used by the minimiser)."""
    # fewer variables
    if len(spec['vars']) > 1:
        for k in range(len(spec['vars'])):
            s = copy.deepcopy(spec)
            del s['vars'][k]
            yield s
    for k, v in enumerate(spec['vars']):
        if v['extra']:
            s = copy.deepcopy(spec)
            s['vars'][k]['extra'] = v['extra'][:-1]
            yield s
        if v.get('perm') is not None:
            s = copy.deepcopy(spec)
            s['vars'][k]['perm'] = None
            yield s
        if v['missing_frac']:
            s = copy.deepcopy(spec)
            s['vars'][k]['missing_frac'] = 0
            yield s
        if v['fill'] is not None:
            s = copy.deepcopy(spec)
            s['vars'][k]['fill'] = None
            s['vars'][k]['fillv'] = None
            if v['dtype'].startswith('i'):
                s['vars'][k]['missing_frac'] = 0
            yield s
        if v.get('pack'):
            s = copy.deepcopy(spec)
            s['vars'][k]['pack'] = None
            yield s
        if v['dtype'] != 'f8' and not v.get('pack'):
            s = copy.deepcopy(spec)
            s['vars'][k]['dtype'] = 'f8'
            if s['vars'][k]['fill']:
                s['vars'][k]['fillv'] = -999.0
            yield s
    if spec['materialise'] != 'memory':
        s = copy.deepcopy(spec)
        s['materialise'] = 'memory'
        yield s
    if spec.get('coords_as_vars'):
        s = copy.deepcopy(spec)
        s['coords_as_vars'] = False
        yield s
    if spec.get('bounds_as_coords'):
        s = copy.deepcopy(spec)
        s['bounds_as_coords'] = False
        yield s
    if spec.get('holes'):
        s = copy.deepcopy(spec)
        s['holes'] = []
        yield s
    if spec.get('nan_nodes'):
        s = copy.deepcopy(spec)
        s['nan_nodes'] = []
        yield s
    if spec['conv'] == 'ugrid':
        for t in list(spec['tables']):
            if t == 'edge_node' and len(spec['tables']) > 1:
                continue
            if 'edge_node' not in spec['tables'] and t in ('face_edge', 'edge_face'):
                continue      # these two define the edge numbering / carry the edge dimension
            s = copy.deepcopy(spec)
            s['tables'].remove(t)
            s['transposed'] = [x for x in s['transposed'] if x != t]
            if t == 'edge_node':
                s['edges'] = None
                s['edge_dim_attr'] = False
                s['vars'] = [v for v in s['vars'] if v['kind'] != 'edge'] or s['vars'][:0]
                if not s['vars']:
                    continue
            yield s
        if spec['transposed']:
            s = copy.deepcopy(spec)
            s['transposed'] = []
            yield s
        if spec['start_index']:
            s = copy.deepcopy(spec)
            s['start_index'] = 0
            yield s
        if spec.get('start_index_of'):
            s = copy.deepcopy(spec)
            s['start_index_of'] = {}
            yield s
