"""Process environment for checks: fixed hash seed (re-exec), no BLAS threads, synchronous dask, quiet warnings."""
import os
import sys


def ensure_env():
    if os.environ.get('PYTHONHASHSEED') is None and not os.environ.get('VERIF_NO_REEXEC'):
        env = dict(os.environ)
        env['PYTHONHASHSEED'] = '0'
        env['VERIF_NO_REEXEC'] = '1'
        os.execve(sys.executable, [sys.executable] + _orig_argv(), env)
    for k in ('OMP_NUM_THREADS', 'OPENBLAS_NUM_THREADS', 'MKL_NUM_THREADS'):
        os.environ.setdefault(k, '1')
    os.environ.setdefault('HDF5_USE_FILE_LOCKING', 'FALSE')
    import warnings
    warnings.simplefilter('ignore')
    import dask
    dask.config.set(scheduler='synchronous')
    import logging
    logging.getLogger('emsarray').setLevel(logging.CRITICAL)


def _orig_argv():
    # python -m pkg.mod args  ->  sys.orig_argv holds the exact command line
    return list(sys.orig_argv[1:])
