"""
A lifetime as the main program of a fresh interpreter: `python [flags] -m sim.fresh <args.pkl>`.

Forked lifetimes share the harness interpreter: its PYTHONHASHSEED, its optimisation level, its already imported modules.
Where a property is quantified over processes ("in whatever process", "-O", another hash seed) the same lifetime function
is run here instead, with a context that streams its events to a file (so that they survive a crash), and the parent
judges it exactly like a forked one.
"""
import importlib
import os
import pickle
import sys
import traceback


class StreamCtx:
    """The interface of lifetimes.ChildCtx, writing to a file instead of a pipe."""

    def __init__(self, path):
        self._fh = open(path, 'ab', buffering=0)

    def _send(self, obj):
        data = pickle.dumps(obj, protocol=4)
        self._fh.write(len(data).to_bytes(8, 'big') + data)

    def emit(self, _ev, **payload):
        self._send(('event', (_ev, payload)))

    def observe(self, key, value):
        self._send(('obs', (key, value)))

    def crash(self, code=137):
        os._exit(code)

    def crash_after_ack(self):
        os._exit(0)

    def terminate(self):
        import signal
        os.kill(os.getpid(), signal.SIGTERM)
        for _ in range(100):
            pass


def main():
    from sim import bootstrap
    bootstrap.ensure_env()
    with open(sys.argv[1], 'rb') as f:
        a = pickle.load(f)
    ctx = StreamCtx(a['out'])
    try:
        from sim import lifetimes
        lifetimes.seed_uuid(a['uuid_tag'])
        fn = getattr(importlib.import_module(a['module']), a['func'])
        fn(ctx, *a['args'])
    except BaseException:
        ctx._send(('harness_error', traceback.format_exc()))
        os._exit(3)
    ctx._send(('done', None))


if __name__ == '__main__':
    main()
