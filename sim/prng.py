"""One integer decides everything: seed derivation."""
import hashlib
import random


def derive(*parts) -> int:
    h = hashlib.sha256(repr(tuple(parts)).encode()).digest()
    return int.from_bytes(h[:8], 'big')


def rng_for(verif_seed: int, engine: str, index: int) -> random.Random:
    return random.Random(derive(verif_seed, engine, index))


def weighted(rng: random.Random, pairs):
    """pairs: [(item, weight), ...]"""
    total = sum(w for _, w in pairs)
    x = rng.random() * total
    acc = 0.0
    for item, w in pairs:
        acc += w
        if x < acc:
            return item
    return pairs[-1][0]
