"""
S-dask: a seeded single-threaded dask scheduler.  Real graph construction and task execution;
the thread pool is replaced by a fake executor that holds up to `n_workers` submitted batches and
a replacement for dask.local.queue_get that decides which in-flight batch "finishes" next.
Completion order comes from random.Random(order_seed) where order_seed is part of the *plan*,
so replay is a pure function of the plan file.  The nth executed task can be made to fail with
an OSError (a failed chunk read).
"""
from __future__ import annotations

import os
import random

_DEBUG = os.environ.get('EMSVERIF_DASK_DEBUG')


class _FakeFuture:
    def __init__(self, fn, args, kwargs):
        self.fn, self.args, self.kwargs = fn, args, kwargs
        self._cb = None
        self._result = None
        self._exc = None

    def add_done_callback(self, cb):
        self._cb = cb

    def run(self):
        try:
            self._result = self.fn(*self.args, **self.kwargs)
        except BaseException as e:  # pragma: no cover - batch_execute_tasks packs exceptions itself
            self._exc = e

    def result(self):
        if self._exc is not None:
            raise self._exc
        return self._result


class SeededScheduler:
    def __init__(self, ctl, order_seed=0, n_workers=3):
        self.ctl = ctl
        self.order_seed = order_seed
        self.n_workers = max(1, n_workers)
        self.executed = 0
        self.reordered = 0
        self.graphs = 0
        self.graphs_reordered = 0
        self.order_sigs = []

    def __call__(self, dsk, keys, **kwargs):
        import dask.local as dl
        from . import seams
        self.graphs += 1
        pending = []
        rng = random.Random(f'{self.order_seed}/{self.graphs}')
        sched = self
        choices = []

        def submit(fn, *args, **kw):
            f = _FakeFuture(fn, args, kw)
            pending.append(f)
            return f

        def queue_get(q):
            i = rng.randrange(len(pending))
            choices.append(i)
            if i != 0:
                sched.reordered += 1
            f = pending.pop(i)
            if _DEBUG:
                with open(_DEBUG, 'a') as fh:
                    fh.write(f'{os.getpid()} g{sched.graphs} pick {i}/{len(pending) + 1} {[b[0] for b in f.args[0]]}\n')
            fault = sched.ctl.cross('dask') if sched.ctl is not None else None
            sched.executed += 1
            if fault is not None:
                if fault['kind'] == 'crash':
                    sched.ctl.ctx.crash()
                kind = fault['kind']

                def failing_loads(_info, _kind=kind):
                    raise seams.make_oserror(_kind, 'dask task (chunk read)')
                batch = f.args[0]
                first = batch[0]
                f.args = ([(first[0], first[1], first[2], failing_loads, first[4], first[5])] + list(batch[1:]),)
            f.run()
            return f

        real_queue_get = dl.queue_get
        dl.queue_get = queue_get
        try:
            kwargs.pop('num_workers', None)
            kwargs.pop('pool', None)
            kwargs.pop('chunksize', None)
            return dl.get_async(submit, self.n_workers, dsk, keys, chunksize=1, **kwargs)
        finally:
            dl.queue_get = real_queue_get
            if any(choices):
                self.graphs_reordered += 1
            self.order_sigs.append(hash(tuple(choices)) & 0xffffff)


_SCRATCH_RE = None


def _stable_tokens():
    """dask names every graph key after a token; xarray derives the token of a file-backed variable from the file's
    absolute path and modification time.  Both differ from run to run (random scratch directory, wall clock), and dask
    breaks ties in its static task ordering by comparing key *names* -- so which chunk is read first could differ
    between two executions of the same plan.  Tokens are made a function of the plan: the scratch directory's random
    part and the modification time are taken out of what gets tokenised."""
    global _SCRATCH_RE
    import os
    import re
    import dask.base
    import xarray.backends.api as api
    if getattr(dask.base.tokenize, '_emsverif', False):
        return
    _SCRATCH_RE = re.compile(r'emsverif-[A-Za-z0-9_]{8}')
    real = dask.base.tokenize

    def norm(x):
        if isinstance(x, os.PathLike):
            x = os.fspath(x)
        if isinstance(x, str):
            return _SCRATCH_RE.sub('emsverif-#', x)
        if isinstance(x, (list, tuple)):
            return type(x)(norm(v) for v in x)
        return x

    def tokenize(*args, **kwargs):
        return real(*[norm(a) for a in args], **{k: norm(v) for k, v in kwargs.items()})
    tokenize._emsverif = True
    dask.base.tokenize = tokenize
    api._get_mtime = lambda filename_or_obj: None


def install(ctl, order_seed, n_workers):
    import dask
    _stable_tokens()
    sched = SeededScheduler(ctl, order_seed, n_workers)
    dask.config.set(scheduler=sched)
    return sched
