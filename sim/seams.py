"""
Seams: the simulator installs itself by attribute injection inside the forked lifetime
(child process), so nothing needs restoring and /repo needs no hook.

A FaultController holds the faults armed for the *current op*:
    {"seam": "write"|"mfopen"|"open"|"ncfix.open"|"ncfix.setncattr"|"ncfix.sync"|"fwrite"|"fclose"|"fopen"|"dask"|"tmp",
     "nth": k (1-based crossing within the op), "kind": "ENOSPC"|"EIO"|"EACCES"|"partial"|"crash"|"crash_after"}
It counts crossings per seam, fires when the count matches, and reports every firing as an event.
"""
from __future__ import annotations

import builtins
import errno
import os

ERRNO = {'ENOSPC': errno.ENOSPC, 'EIO': errno.EIO, 'EACCES': errno.EACCES, 'EMFILE': errno.EMFILE}


class InjectedOSError(OSError):
    """Marker subclass so the harness can tell its own faults from organic errors (never shown to emsarray as different: it *is* an OSError)."""


class InjectedPermissionError(InjectedOSError, PermissionError):
    """EACCES as Python raises it: a PermissionError (code that says `except PermissionError` must see it)."""


def make_oserror(kind, what):
    code = ERRNO.get(kind, errno.EIO)
    cls = InjectedPermissionError if code == errno.EACCES else InjectedOSError
    return cls(code, f'injected {kind} at {what}')


class FaultController:
    def __init__(self, ctx):
        self.ctx = ctx
        self.armed = []
        self.counts = {}
        self.fired = []
        self.op = None
        self.crossings_total = {}

    def begin_op(self, op_name, faults):
        self.op = op_name
        self.armed = [dict(f) for f in (faults or [])]
        self.counts = {}
        self.fired = []

    def end_op(self):
        unfired = [f for f in self.armed if not f.get('_fired')]
        fired = self.fired
        counts = dict(self.counts)
        self.armed, self.fired, self.counts, self.op = [], [], {}, None
        return fired, unfired, counts

    def cross(self, seam, detail=None):
        """Returns the fault dict to apply at this crossing, or None."""
        n = self.counts.get(seam, 0) + 1
        self.counts[seam] = n
        self.crossings_total[seam] = self.crossings_total.get(seam, 0) + 1
        for f in self.armed:
            if f['seam'] != seam:
                continue
            if f['nth'] == n and not f.get('_fired'):
                f['_fired'] = True
                rec = {'seam': seam, 'nth': n, 'kind': f['kind']}
                if f.get('persistent'):
                    rec['persistent'] = True
                self.fired.append(rec)
                self.ctx.emit('fault_fired', op=self.op, **rec)
                return f
            if f.get('persistent') and f.get('_fired') and n > f['nth']:
                # a fault that does not go away (full disk, lock held by someone else): every later crossing fails too
                return f
        return None


# ----------------------------------------------------------------------------------------
# S-write / S-mfopen / S-open : xarray storage entry points
# ----------------------------------------------------------------------------------------

def install_xarray_seams(ctl: FaultController):
    import xarray

    depth = {'n': 0}
    orig_ds = xarray.Dataset.to_netcdf
    orig_da = xarray.DataArray.to_netcdf

    def _wrapped(orig):
        def to_netcdf(self, path=None, *args, **kwargs):
            if depth['n'] > 0 or path is None:
                return orig(self, path, *args, **kwargs)
            depth['n'] += 1
            try:
                f = ctl.cross('write')
                if f is not None:
                    if f['kind'] == 'crash':
                        ctl.ctx.crash()
                    if f['kind'] in ERRNO:
                        raise make_oserror(f['kind'], 'to_netcdf')
                result = orig(self, path, *args, **kwargs)
                if f is not None:
                    if f['kind'] == 'partial':
                        try:
                            size = os.path.getsize(path)
                            with open(path, 'r+b') as fh:
                                fh.truncate(max(0, size // 2))
                        except OSError:
                            pass
                        raise make_oserror('EIO', 'to_netcdf (partial file left behind)')
                    if f['kind'] == 'crash_after':
                        ctl.ctx.crash()
                    if f['kind'] == 'sigterm':
                        # stopped by SIGTERM half way through this file
                        try:
                            size = os.path.getsize(path)
                            with open(path, 'r+b') as fh:
                                fh.truncate(max(0, size // 2))
                        except OSError:
                            pass
                        ctl.ctx.terminate()
                return result
            finally:
                depth['n'] -= 1
        return to_netcdf

    xarray.Dataset.to_netcdf = _wrapped(orig_ds)
    xarray.DataArray.to_netcdf = _wrapped(orig_da)

    orig_mf = xarray.open_mfdataset

    def open_mfdataset(*args, **kwargs):
        f = ctl.cross('mfopen')
        if f is not None:
            if f['kind'] == 'crash':
                ctl.ctx.crash()
            raise make_oserror(f['kind'], 'open_mfdataset')
        return orig_mf(*args, **kwargs)

    xarray.open_mfdataset = open_mfdataset

    orig_open = xarray.open_dataset

    def open_dataset(*args, **kwargs):
        f = ctl.cross('open')
        if f is not None:
            if f['kind'] == 'crash':
                ctl.ctx.crash()
            raise make_oserror(f['kind'], 'open_dataset')
        return orig_open(*args, **kwargs)

    xarray.open_dataset = open_dataset

    # reads of a lazily opened netCDF variable (every emsarray input that is not in memory yet)
    import xarray.backends.netCDF4_ as nc4_backend
    orig_getitem = nc4_backend.NetCDF4ArrayWrapper._getitem

    def _getitem(self, key):
        f = ctl.cross('read')
        if f is not None:
            if f['kind'] == 'crash':
                ctl.ctx.crash()
            raise make_oserror(f['kind'], f'read of variable {self.variable_name!r}')
        return orig_getitem(self, key)

    nc4_backend.NetCDF4ArrayWrapper._getitem = _getitem
    return {'to_netcdf': orig_ds, 'open_dataset': orig_open, 'open_mfdataset': orig_mf}


# ----------------------------------------------------------------------------------------
# S-ncfix : the netCDF4 module as seen by emsarray.utils (phase 2 of the two-phase save)
# ----------------------------------------------------------------------------------------

def install_ncfix_seam(ctl: FaultController):
    import types

    import netCDF4

    import emsarray.utils

    real = netCDF4

    class VariableProxy:
        def __init__(self, var):
            object.__setattr__(self, '_var', var)

        def __getattr__(self, name):
            return getattr(self._var, name)

        def setncattr(self, name, value):
            f = ctl.cross('ncfix.setncattr')
            if f is not None:
                if f['kind'] == 'crash':
                    ctl.ctx.crash()
                raise make_oserror(f['kind'], 'setncattr')
            return self._var.setncattr(name, value)

    class VariablesProxy:
        def __init__(self, variables):
            self._variables = variables

        def __getitem__(self, key):
            return VariableProxy(self._variables[key])

        def __getattr__(self, name):
            return getattr(self._variables, name)

    class Dataset(real.Dataset):
        def __init__(self, filename, mode='r', *args, **kwargs):
            if mode != 'r':
                f = ctl.cross('ncfix.open')
                if f is not None:
                    if f['kind'] == 'crash':
                        ctl.ctx.crash()
                    raise make_oserror(f['kind'], 'netCDF4.Dataset(r+)')
            super().__init__(filename, mode, *args, **kwargs)

        def __getattribute__(self, name):
            if name == 'variables':
                return VariablesProxy(real.Dataset.__getattribute__(self, 'variables'))
            return real.Dataset.__getattribute__(self, name)

        def sync(self):
            f = ctl.cross('ncfix.sync')
            if f is not None:
                if f['kind'] == 'crash':
                    ctl.ctx.crash()
                raise make_oserror(f['kind'], 'sync')
            return super().sync()

    shim = types.SimpleNamespace()
    for name in dir(real):
        if not name.startswith('__'):
            setattr(shim, name, getattr(real, name))
    shim.Dataset = Dataset
    emsarray.utils.netCDF4 = shim


# ----------------------------------------------------------------------------------------
# S-fopen : builtin open as seen by one module (text / binary streams with failing writes)
# ----------------------------------------------------------------------------------------

class FaultyFile:
    """A real file whose k-th write / close can raise; passes everything else through."""

    def __init__(self, fh, ctl, label):
        self._fh = fh
        self._ctl = ctl
        self._label = label

    def write(self, data):
        f = self._ctl.cross('fwrite')
        if f is not None:
            if f['kind'] == 'crash':
                self._ctl.ctx.crash()
            if f['kind'] == 'short':
                half = data[:max(0, len(data) // 2)]
                import io
                if isinstance(self._fh, io.RawIOBase):
                    # an unbuffered (raw) handle does what write(2) does: it accepts part of the data and
                    # *returns the short count*; a caller that ignores the count reports success
                    return self._fh.write(half)
                self._fh.write(half)
                self._fh.flush()
                raise make_oserror('ENOSPC', self._label + '.write (short)')
            raise make_oserror(f['kind'], self._label + '.write')
        return self._fh.write(data)

    def close(self):
        f = self._ctl.cross('fclose')
        if f is not None:
            if f['kind'] == 'crash':
                self._ctl.ctx.crash()
            # the flush inside close() is what fails: whatever was still buffered never reaches the file
            on_disk, path = None, None
            try:
                on_disk = os.fstat(self._fh.fileno()).st_size
                path = self._fh.name
            except (OSError, ValueError, AttributeError):
                pass
            try:
                self._fh.close()
            finally:
                if on_disk is not None and isinstance(path, (str, bytes, os.PathLike)):
                    try:
                        if os.path.getsize(path) > on_disk:
                            os.truncate(path, on_disk)
                            self._ctl.ctx.emit('probe', name='buffered_tail_lost_at_close')
                    except OSError:
                        pass
                raise make_oserror(f['kind'], self._label + '.close')
        return self._fh.close()

    # explicit delegations: runtime-checkable Protocols (pyshp) look methods up statically
    def read(self, *a):
        return self._fh.read(*a)

    def seek(self, *a):
        return self._fh.seek(*a)

    def tell(self):
        return self._fh.tell()

    def flush(self):
        return self._fh.flush()

    def truncate(self, *a):
        return self._fh.truncate(*a)

    def writable(self):
        return self._fh.writable()

    def readable(self):
        return self._fh.readable()

    def seekable(self):
        return self._fh.seekable()

    @property
    def closed(self):
        return self._fh.closed

    @property
    def mode(self):
        return self._fh.mode

    @property
    def name(self):
        return self._fh.name

    def __enter__(self):
        return self

    def __exit__(self, *exc):
        self.close()
        return False

    def __getattr__(self, name):
        return getattr(self._fh, name)

    def __iter__(self):
        return iter(self._fh)


def make_faulty_open(ctl: FaultController, label='file'):
    real_open = builtins.open

    def faulty_open(path, mode='r', *args, **kwargs):
        if any(c in mode for c in 'wax+'):
            f = ctl.cross('fopen')
            if f is not None:
                if f['kind'] == 'crash':
                    ctl.ctx.crash()
                raise make_oserror(f['kind'], 'open')
            return FaultyFile(real_open(path, mode, *args, **kwargs), ctl, label)
        return real_open(path, mode, *args, **kwargs)

    return faulty_open


def install_fopen_seam(ctl: FaultController, module):
    module.open = make_faulty_open(ctl, module.__name__.rsplit('.', 1)[-1])


# ----------------------------------------------------------------------------------------
# S-env
# ----------------------------------------------------------------------------------------

def set_tz(tz):
    import time
    if tz is None:
        return
    os.environ['TZ'] = tz
    time.tzset()


# ----------------------------------------------------------------------------------------
# S-penv : the process environment / global configuration a lifetime runs under
# ----------------------------------------------------------------------------------------

def gen_process_env(rng):
    """Drawn by planners (never by executors): configuration of the process that is not emsarray's to choose."""
    return {
        'logging_debug': rng.random() < 0.2,            # verbose logging switched on for emsarray (`-vv`, basicConfig(level=DEBUG))
        'tmpdir_other_fs': rng.random() < 0.15,         # TMPDIR lives on another file system than the data
        'keep_attrs': rng.choice(['default', 'default', 'default', 'default', True, False]),   # xarray.set_options(keep_attrs=...)
        'dask_chunk_size': rng.choice(['64B', '256B', '1KiB']),                                # dask array.chunk-size (chunks='auto')
    }


def apply_process_env(penv, ctx, scratch):
    """Installed in the child before the first op.  Every knob is optional; a missing key leaves the default."""
    if not penv:
        return
    if penv.get('logging_debug'):
        import io
        import logging
        lg = logging.getLogger('emsarray')
        lg.setLevel(logging.DEBUG)
        lg.addHandler(logging.StreamHandler(io.StringIO()))
        lg.propagate = False
        ctx.emit('probe', name='env_logging_debug')
    if penv.get('tmpdir_other_fs'):
        import tempfile

        from . import core
        other = core.other_fs_tmpdir(scratch)
        if other is not None:
            os.environ['TMPDIR'] = other
            tempfile.tempdir = None
            ctx.emit('probe', name='env_TMPDIR_on_another_file_system')
    if penv.get('keep_attrs', 'default') != 'default':
        import xarray
        xarray.set_options(keep_attrs=penv['keep_attrs'])
        ctx.emit('probe', name=f'env_keep_attrs_{penv["keep_attrs"]}')
    if penv.get('dask_chunk_size'):
        import dask
        dask.config.set({'array.chunk-size': penv['dask_chunk_size']})
