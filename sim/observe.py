"""Plain-data observations of emsarray/xarray objects, made inside a lifetime, judged in the parent."""
from __future__ import annotations

import hashlib
import traceback

import numpy


def exc_frame(exc: BaseException):
    """(class name, innermost emsarray frame 'module.function') - never the message text."""
    frame = None
    for fs in traceback.extract_tb(exc.__traceback__):
        fn = fs.filename.replace('\\', '/')
        if '/emsarray/' in fn and '/verif/' not in fn:
            mod = fn.split('/emsarray/', 1)[1].rsplit('.py', 1)[0].replace('/', '.')
            frame = f'{mod}.{fs.name}'
    return type(exc).__name__, frame


def exc_info(exc: BaseException):
    cls, frame = exc_frame(exc)
    injected = False
    e = exc
    seen = 0
    while e is not None and seen < 10:
        if any(c.__name__ == 'InjectedOSError' for c in type(e).__mro__):
            injected = True
        e = e.__cause__ or e.__context__
        seen += 1
    return {'exc': cls, 'frame': frame, 'injected': injected, 'msg': str(exc)[:300]}


def _canon_attr(v):
    if isinstance(v, numpy.ndarray):
        return ['ndarray', str(v.dtype), v.tolist()]
    if isinstance(v, numpy.generic):
        return [type(v).__name__, v.item()]
    if isinstance(v, (bytes, bytearray)):
        return ['bytes', bytes(v).hex()]
    if isinstance(v, (list, tuple)):
        return [_canon_attr(x) for x in v]
    return v


def canon_attrs(attrs):
    return {str(k): _canon_attr(v) for k, v in attrs.items()}


def observe_variable(var):
    """var: xarray.Variable / DataArray (loaded here)."""
    values = numpy.asarray(var.values)
    enc = {}
    for k in ('dtype', '_FillValue', 'missing_value', 'units', 'calendar'):
        if k in var.encoding:
            v = var.encoding[k]
            enc[k] = str(v) if k == 'dtype' else _canon_attr(v)
    return {
        'dims': [str(d) for d in var.dims],
        'dtype': str(values.dtype),
        'values': values,
        'attrs': canon_attrs(var.attrs),
        'encoding': enc,
    }


def observe_dataset(ds, *, polygons=False, convention=True):
    """Load everything; return plain data."""
    out = {
        'data_vars': [str(k) for k in ds.data_vars],
        'coords': [str(k) for k in ds.coords],
        'sizes': {str(k): int(v) for k, v in ds.sizes.items()},
        'attrs': canon_attrs(ds.attrs),
        'vars': {str(name): observe_variable(ds.variables[name]) for name in ds.variables},
    }
    if convention:
        import emsarray
        try:
            cls = emsarray.get_dataset_convention(ds)
            out['convention'] = None if cls is None else cls.__name__
        except Exception as e:  # detection itself blew up
            out['convention'] = {'error': exc_info(e)}
    if polygons:
        try:
            out['polygons'] = polygons_as_lists(ds.ems.polygons)
        except Exception as e:
            out['polygons'] = {'error': exc_info(e)}
    return out


def polygons_as_lists(polygons):
    out = []
    for p in polygons:
        if p is None:
            out.append(None)
        else:
            out.append([tuple(map(float, c)) for c in list(p.exterior.coords)[:-1]])
    return out


def values_digest(values: numpy.ndarray) -> str:
    a = numpy.ascontiguousarray(values)
    if a.dtype.kind == 'f':
        # canonical NaN payload
        a = numpy.where(numpy.isnan(a), numpy.nan, a)
    if a.dtype.kind in 'OU':
        return hashlib.sha1(repr(a.tolist()).encode()).hexdigest()[:12]
    return hashlib.sha1(str(a.dtype).encode() + str(a.shape).encode() + a.tobytes()).hexdigest()[:12]


def summarise_observation(obs):
    """Small deterministic summary for the event log."""
    if obs is None:
        return None
    return {
        'data_vars': sorted(obs['data_vars']), 'coords': sorted(obs['coords']),
        'sizes': dict(sorted(obs['sizes'].items())),
        'convention': obs.get('convention') if not isinstance(obs.get('convention'), dict) else 'error',
        'digests': {k: values_digest(v['values']) for k, v in sorted(obs['vars'].items())},
    }
