"""python -m sim.replay <replay.json> [--quiet]   exit 1 = violation reproduced, 0 = not reproduced, 2 = harness error"""
import os
import sys


def main():
    from sim import bootstrap
    bootstrap.ensure_env()
    from sim import core
    path = sys.argv[1]
    quiet = '--quiet' in sys.argv
    found, same, out = core.replay_file(path, quiet=False)
    if out.harness_error:
        print('HARNESS-ERROR', out.harness_error)
        sys.exit(2)
    if found:
        import json
        data = json.load(open(path))
        print(f"VIOLATION property={data['expect']['property']} replay={path}")
    print('digest same' if same else 'digest differs')
    sys.exit(1 if found else 0)


if __name__ == '__main__':
    main()
