"""
Process lifetimes: every lifetime of a plan runs in a forked child of the (warm) worker.
Durable state = files in the run's scratch root.  The child streams events to the parent
over a pipe as they happen, so events survive a simulated crash (os._exit).

Ways a lifetime ends (decided by the plan, never by chance):
  exit            - flush every open buffered file (what interpreter shutdown does), then os._exit(0)
  crash_after_ack - os._exit(0) straight after the API call under test returned (no flush, no GC)
  crash_at        - os._exit(137) inside the nth crossing of a storage seam
"""
from __future__ import annotations

import faulthandler
import gc
import io
import os
import pickle
import select
import signal
import sys
import time
import traceback


class HarnessError(Exception):
    pass


class ChildCtx:
    def __init__(self, fd):
        self._fd = fd
        self.seq = 0

    def _send(self, obj):
        data = pickle.dumps(obj, protocol=4)
        header = len(data).to_bytes(8, 'big')
        buf = header + data
        while buf:
            n = os.write(self._fd, buf)
            buf = buf[n:]

    def emit(self, _ev, **payload):
        """Append to the run's event log (streamed; survives a crash)."""
        self.seq += 1
        self._send(('event', (_ev, payload)))

    def observe(self, key, value):
        """Send a (possibly large, non-logged) observation to the oracle in the parent."""
        self._send(('obs', (key, value)))

    def crash(self, code=137):
        os._exit(code)

    def crash_after_ack(self):
        os._exit(0)

    def terminate(self):
        """The job scheduler's way of stopping a process: SIGTERM at this instant.  With the default disposition the
        process is gone (reported as a crash); if the code under test has installed a handler, that handler runs here
        and whatever it raises propagates from this point."""
        os.kill(os.getpid(), signal.SIGTERM)
        for _ in range(100):      # let a Python-level handler run
            pass

    def normal_exit(self):
        # What a clean interpreter shutdown does for user-visible state: flush buffered files.
        try:
            # the heap inherited from the worker was frozen at fork (see _fresh_gc_state): this lists only objects made here
            objs = gc.get_objects()
            for obj in objs:
                try:
                    if isinstance(obj, (io.BufferedWriter, io.TextIOWrapper, io.BufferedRandom)) and not obj.closed:
                        obj.flush()
                except Exception:
                    pass
            for stream in (sys.stdout, sys.stderr):
                try:
                    stream.flush()
                except Exception:
                    pass
        finally:
            os._exit(0)


def _forget_inherited_file_cache():
    """A lifetime starts with an empty xarray file-handle cache: whatever the parent worker happened to hold
    (entries that only go away when its garbage collector runs) must not count against the per-run cache size,
    or the moment a work file is really closed would depend on the worker's earlier runs."""
    fm = sys.modules.get('xarray.backends.file_manager')
    if fm is None:
        return
    try:
        cache = fm.FILE_CACHE
        with cache._lock:
            cache._cache.clear()   # forget, do not close: the handles belong to the parent
    except Exception:
        pass


_RUN_TAG = 'norun'
_LIFETIME_NO = 0


def seed_uuid(tag):
    """uuid.uuid1 / uuid.uuid4 behind a seam: dask names graph keys after uuid4().hex and breaks ties in its static
    task order by comparing key names, so the order in which independent tasks (the variables of one save, the chunks
    of one read) run is decided by these 'random' names.  Here they come from a PRNG seeded by the plan."""
    import random
    import uuid
    rng = random.Random(f'uuid/{tag}')

    def uuid4():
        return uuid.UUID(int=rng.getrandbits(128), version=4)

    def uuid1(node=None, clock_seq=None):
        return uuid.UUID(int=rng.getrandbits(128), version=1)
    uuid.uuid4 = uuid4
    uuid.uuid1 = uuid1


def begin_run(plan):
    """Called by core.execute before an engine runs a plan: everything 'random' below is a function of the plan."""
    global _RUN_TAG, _LIFETIME_NO
    import json
    _RUN_TAG = json.dumps([plan.get('engine'), plan.get('seed')], sort_keys=True)
    _LIFETIME_NO = 0
    seed_uuid(_RUN_TAG)


def _fresh_gc_state():
    """The cyclic collector decides when unreferenced file managers are finalised (and their files closed).  Its
    counters and the size of the old generation are inherited from the worker at fork and so depend on the worker's
    earlier runs.  Freezing the inherited heap and running one (now empty, instantaneous) full collection zeroes every
    counter: from here on collection times are a function of this lifetime's own allocations."""
    gc.freeze()
    gc.collect()


def run_lifetime(fn, *args, timeout=120.0):
    """
    Run fn(ctx, *args) in a forked child.  Returns dict(status, code, events, obs, error).
    status: 'exit' | 'crash' (137) | 'harness_error' | 'timeout'
    """
    global _LIFETIME_NO
    r, w = os.pipe()
    sys.stdout.flush()
    sys.stderr.flush()
    _LIFETIME_NO += 1
    pid = os.fork()
    if pid == 0:
        code = 0
        try:
            os.close(r)
            seed_uuid(f'{_RUN_TAG}/lifetime{_LIFETIME_NO}')
            signal.signal(signal.SIGTERM, signal.SIG_DFL)
            signal.signal(signal.SIGINT, signal.SIG_DFL)
            faulthandler.enable()
            faulthandler.dump_traceback_later(timeout + 5, exit=True)
            ctx = ChildCtx(w)
            _forget_inherited_file_cache()
            _fresh_gc_state()
            try:
                fn(ctx, *args)
            except BaseException:
                ctx._send(('harness_error', traceback.format_exc()))
                code = 3
                os._exit(code)
            ctx._send(('done', None))
            ctx.normal_exit()
        finally:
            os._exit(code or 4)
    os.close(w)
    events, obs, error, done = [], {}, None, False
    buf = b''
    deadline = time.monotonic() + timeout
    status = None
    eof = False
    while not eof:
        remaining = deadline - time.monotonic()
        if remaining <= 0:
            status = 'timeout'
            break
        ready, _, _ = select.select([r], [], [], min(remaining, 1.0))
        if not ready:
            continue
        chunk = os.read(r, 1 << 16)
        if not chunk:
            eof = True
            break
        buf += chunk
        while len(buf) >= 8:
            n = int.from_bytes(buf[:8], 'big')
            if len(buf) < 8 + n:
                break
            kind, payload = pickle.loads(buf[8:8 + n])
            buf = buf[8 + n:]
            if kind == 'event':
                events.append(payload)
            elif kind == 'obs':
                obs[payload[0]] = payload[1]
            elif kind == 'harness_error':
                error = payload
            elif kind == 'done':
                done = True
    os.close(r)
    if status == 'timeout':
        try:
            os.kill(pid, signal.SIGKILL)
        except ProcessLookupError:
            pass
        os.waitpid(pid, 0)
        return {'status': 'timeout', 'code': None, 'events': events, 'obs': obs, 'error': 'lifetime timed out'}
    _, st = os.waitpid(pid, 0)
    code = os.waitstatus_to_exitcode(st)
    if error is not None:
        status = 'harness_error'
    elif code in (137, -signal.SIGTERM):
        status = 'crash'
    elif code == 0:
        status = 'exit' if done else 'crash_after_ack'
    else:
        status = 'harness_error'
        error = f'child exited with unexpected status {code}'
    return {'status': status, 'code': code, 'events': events, 'obs': obs, 'error': error}


def run_lifetime_fresh(module, func, args, scratch, *, flags=(), env=None, timeout=300.0):
    """Run module.func(ctx, *args) as the main program of a fresh interpreter (see sim/fresh.py).  Same result shape
    as run_lifetime.  `flags` are interpreter options (e.g. '-O'), `env` extra environment (e.g. PYTHONHASHSEED)."""
    global _LIFETIME_NO
    import subprocess
    _LIFETIME_NO += 1
    argp = os.path.join(scratch, f'.fresh_args_{_LIFETIME_NO}.pkl')
    outp = os.path.join(scratch, f'.fresh_out_{_LIFETIME_NO}.bin')
    with open(argp, 'wb') as f:
        pickle.dump({'module': module, 'func': func, 'args': list(args), 'out': outp,
                     'uuid_tag': f'{_RUN_TAG}/fresh{_LIFETIME_NO}'}, f)
    e = dict(os.environ, VERIF_NO_REEXEC='1')
    e.setdefault('PYTHONHASHSEED', '0')
    e.update(env or {})
    root = os.path.dirname(os.path.dirname(os.path.abspath(__file__)))
    try:
        p = subprocess.run([sys.executable, *flags, '-m', 'sim.fresh', argp], capture_output=True, text=True, env=e, cwd=root, timeout=timeout)
        code = p.returncode
    except subprocess.TimeoutExpired:
        return {'status': 'timeout', 'code': None, 'events': [], 'obs': {}, 'error': 'fresh lifetime timed out'}
    events, obs, error, done = [], {}, None, False
    try:
        with open(outp, 'rb') as f:
            buf = f.read()
    except OSError:
        buf = b''
    while len(buf) >= 8:
        n = int.from_bytes(buf[:8], 'big')
        if len(buf) < 8 + n:
            break
        kind, payload = pickle.loads(buf[8:8 + n])
        buf = buf[8 + n:]
        if kind == 'event':
            events.append(payload)
        elif kind == 'obs':
            obs[payload[0]] = payload[1]
        elif kind == 'harness_error':
            error = payload
        elif kind == 'done':
            done = True
    for q in (argp, outp):
        try:
            os.remove(q)
        except OSError:
            pass
    if error is not None:
        status = 'harness_error'
    elif code in (137, -signal.SIGTERM):
        status = 'crash'
    elif code == 0:
        status = 'exit' if done else 'crash_after_ack'
    else:
        status, error = 'harness_error', f'fresh interpreter exited {code}: {p.stderr[-1500:]}'
    return {'status': status, 'code': code, 'events': events, 'obs': obs, 'error': error}
