"""
Process lifetimes: every lifetime of a plan runs in a forked child of the (warm) worker.
Durable state = files in the run's scratch root.  The child streams events to the parent
over a pipe as they happen, so events survive a simulated crash (os._exit).

Ways a lifetime ends (decided by the plan, never by chance):
  exit            - flush every open buffered file (what interpreter shutdown does), then os._exit(0)
  crash_after_ack - os._exit(0) straight after the API call under test returned (no flush, no GC)
  crash_at        - os._exit(137) inside the nth crossing of a storage seam
"""
from __future__ import annotations

import faulthandler
import gc
import io
import os
import pickle
import select
import signal
import sys
import time
import traceback


class HarnessError(Exception):
    pass


class ChildCtx:
    def __init__(self, fd):
        self._fd = fd
        self.seq = 0

    def _send(self, obj):
        data = pickle.dumps(obj, protocol=4)
        header = len(data).to_bytes(8, 'big')
        buf = header + data
        while buf:
            n = os.write(self._fd, buf)
            buf = buf[n:]

    def emit(self, _ev, **payload):
        """Append to the run's event log (streamed; survives a crash)."""
        self.seq += 1
        self._send(('event', (_ev, payload)))

    def observe(self, key, value):
        """Send a (possibly large, non-logged) observation to the oracle in the parent."""
        self._send(('obs', (key, value)))

    def crash(self, code=137):
        os._exit(code)

    def crash_after_ack(self):
        os._exit(0)

    def normal_exit(self):
        # What a clean interpreter shutdown does for user-visible state: flush buffered files.
        try:
            objs = gc.get_objects() if getattr(self, 'full_flush', False) else gc.get_objects(generation=0) + gc.get_objects(generation=1)
            for obj in objs:
                try:
                    if isinstance(obj, (io.BufferedWriter, io.TextIOWrapper, io.BufferedRandom)) and not obj.closed:
                        obj.flush()
                except Exception:
                    pass
            for stream in (sys.stdout, sys.stderr):
                try:
                    stream.flush()
                except Exception:
                    pass
        finally:
            os._exit(0)


def run_lifetime(fn, *args, timeout=120.0):
    """
    Run fn(ctx, *args) in a forked child.  Returns dict(status, code, events, obs, error).
    status: 'exit' | 'crash' (137) | 'harness_error' | 'timeout'
    """
    r, w = os.pipe()
    sys.stdout.flush()
    sys.stderr.flush()
    pid = os.fork()
    if pid == 0:
        code = 0
        try:
            os.close(r)
            signal.signal(signal.SIGTERM, signal.SIG_DFL)
            signal.signal(signal.SIGINT, signal.SIG_DFL)
            faulthandler.enable()
            faulthandler.dump_traceback_later(timeout + 5, exit=True)
            ctx = ChildCtx(w)
            try:
                fn(ctx, *args)
            except BaseException:
                ctx._send(('harness_error', traceback.format_exc()))
                code = 3
                os._exit(code)
            ctx._send(('done', None))
            ctx.normal_exit()
        finally:
            os._exit(code or 4)
    os.close(w)
    events, obs, error, done = [], {}, None, False
    buf = b''
    deadline = time.monotonic() + timeout
    status = None
    eof = False
    while not eof:
        remaining = deadline - time.monotonic()
        if remaining <= 0:
            status = 'timeout'
            break
        ready, _, _ = select.select([r], [], [], min(remaining, 1.0))
        if not ready:
            continue
        chunk = os.read(r, 1 << 16)
        if not chunk:
            eof = True
            break
        buf += chunk
        while len(buf) >= 8:
            n = int.from_bytes(buf[:8], 'big')
            if len(buf) < 8 + n:
                break
            kind, payload = pickle.loads(buf[8:8 + n])
            buf = buf[8 + n:]
            if kind == 'event':
                events.append(payload)
            elif kind == 'obs':
                obs[payload[0]] = payload[1]
            elif kind == 'harness_error':
                error = payload
            elif kind == 'done':
                done = True
    os.close(r)
    if status == 'timeout':
        try:
            os.kill(pid, signal.SIGKILL)
        except ProcessLookupError:
            pass
        os.waitpid(pid, 0)
        return {'status': 'timeout', 'code': None, 'events': events, 'obs': obs, 'error': 'lifetime timed out'}
    _, st = os.waitpid(pid, 0)
    code = os.waitstatus_to_exitcode(st)
    if error is not None:
        status = 'harness_error'
    elif code == 137:
        status = 'crash'
    elif code == 0:
        status = 'exit' if done else 'crash_after_ack'
    else:
        status = 'harness_error'
        error = f'child exited with unexpected status {code}'
    return {'status': status, 'code': code, 'events': events, 'obs': obs, 'error': error}
