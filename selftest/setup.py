"""setup_cmd: import check + a short determinism self-test (no downloads, nothing compiled)."""
import sys


def main():
    from sim import bootstrap
    bootstrap.ensure_env()
    import emsarray  # noqa: F401
    import xarray  # noqa: F401
    print('emsarray', emsarray.__version__, 'from', emsarray.__file__)
    from selftest import determinism
    rc = determinism.main(['--quick'])
    sys.exit(rc)


if __name__ == '__main__':
    main()
