#!/venv/bin/python
"""usage: run_baseline.py <worktree>   -> runs the existing test suite of the worktree and checks that every
test of the stable baseline (371 tests) still passes.  Prints BASELINE OK or the list of regressions."""
import json, os, subprocess, sys, tempfile
import xml.etree.ElementTree as ET
wt = os.path.abspath(sys.argv[1])
stable = set(json.load(open('/root/.vp/BASELINE.json'))['stable_pass'])
out = tempfile.mktemp(suffix='.xml')
env = dict(os.environ, PYTHONPATH=os.path.join(wt, 'src'))
p = subprocess.run(['/venv/bin/python', '-m', 'pytest', '-q', '-p', 'no:cacheprovider', '--timeout=900',
                    '--continue-on-collection-errors', f'--junitxml={out}'], cwd=wt, env=env, capture_output=True, text=True)
passed = set()
for tc in ET.parse(out).getroot().iter('testcase'):
    if not any(ch.tag in ('failure', 'error', 'skipped') for ch in tc):
        passed.add(f"{tc.get('classname')}::{tc.get('name')}")
missing = sorted(stable - passed)
print(p.stdout[-600:])
if missing:
    print('BASELINE REGRESSIONS (%d):' % len(missing))
    for m in missing[:40]:
        print('  ', m)
    sys.exit(1)
print('BASELINE OK: all %d stable tests pass' % len(stable))
