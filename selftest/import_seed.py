"""
Confirm a sub-agent's seeded change in a scratch worktree and keep it under /verif/seeded/.
    python -m selftest.import_seed <property id> <src dir with patch.diff demo.py notes.md> <name>
Confirms: patch applies to HEAD; only src/emsarray files touched; baseline (371 stable tests) passes with it;
demo.py exits 1 with the patch and 0 without.  The scratch worktree is removed afterwards.
"""
import json
import os
import pathlib
import shutil
import subprocess
import sys

VERIF = pathlib.Path(__file__).resolve().parent.parent


def sh(cmd, **kw):
    return subprocess.run(cmd, capture_output=True, text=True, **kw)


def main():
    prop, src, name = sys.argv[1], pathlib.Path(sys.argv[2]), sys.argv[3]
    wt = f'/tmp/confirm_wt_{name}'
    sh(['git', '-C', '/repo', 'worktree', 'remove', '--force', wt])
    r = sh(['git', '-C', '/repo', 'worktree', 'add', '-q', wt, 'HEAD'])
    assert r.returncode == 0, r.stderr
    ok = {}
    try:
        patch = src / 'patch.diff'
        files = [ln[6:] for ln in patch.read_text().splitlines() if ln.startswith('+++ b/')]
        ok['only_src'] = all(f.startswith('src/emsarray/') for f in files)
        env = dict(os.environ, PYTHONPATH=f'{wt}/src', EMSARRAY_SRC=f'{wt}/src', DASK_SCHEDULER='synchronous')
        d0 = sh(['/venv/bin/python', str(src / 'demo.py')], env=env, cwd='/tmp', timeout=900)
        ok['demo_without'] = d0.returncode
        a = sh(['git', '-C', wt, 'apply', str(patch)])
        ok['applies'] = a.returncode == 0
        if ok['applies']:
            b = sh(['/verif/selftest/run_baseline.py', wt], timeout=1800)
            ok['baseline_ok'] = 'BASELINE OK' in b.stdout
            d1 = sh(['/venv/bin/python', str(src / 'demo.py')], env=env, cwd='/tmp', timeout=900)
            ok['demo_with'] = d1.returncode
            ok['demo_with_tail'] = (d1.stdout + d1.stderr)[-400:]
    finally:
        sh(['git', '-C', '/repo', 'worktree', 'remove', '--force', wt])
    good = ok.get('only_src') and ok.get('applies') and ok.get('baseline_ok') and ok.get('demo_with') == 1 and ok.get('demo_without') == 0
    print(json.dumps(ok, indent=1))
    if not good:
        print('NOT CONFIRMED')
        return 1
    dest = VERIF / 'seeded' / name
    dest.mkdir(parents=True, exist_ok=True)
    shutil.copy(src / 'patch.diff', dest / 'patch.diff')
    import re
    demo = (src / 'demo.py').read_text()
    demo = re.sub(r'/tmp/w[t2]_C\d+/src', '/repo/src', demo)   # the author's scratch worktree is gone: default to the repository
    (dest / 'demo.py').write_text(demo)
    notes = (src / 'notes.md').read_text() if (src / 'notes.md').exists() else ''
    (dest / 'notes.md').write_text(notes)
    meta = {'property': prop, 'origin': 'independent sub-agent given only the property text and a scratch worktree',
            'files': files, 'needs_to_manifest': notes[:1500],
            'confirmed': {'patch_applies_to_HEAD': True, 'baseline_371_stable_pass_with_patch': True,
                          'demo_exit_with_patch': 1, 'demo_exit_without_patch': 0,
                          'commands': ['git worktree add /tmp/confirm_wt_<name> HEAD', 'git apply patch.diff', '/verif/selftest/run_baseline.py <worktree>  (pytest with junit, all 371 BASELINE.json stable tests must pass)',
                                       'PYTHONPATH=<worktree>/src /venv/bin/python demo.py  (with and without the patch)', 'git worktree remove --force']}}
    (dest / 'meta.json').write_text(json.dumps(meta, indent=1))
    print('CONFIRMED ->', dest)
    return 0


if __name__ == '__main__':
    sys.exit(main())
