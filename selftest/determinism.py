"""
Determinism self-test: for each engine, execute the same seeded plans twice (different worker
processes), and once more in a fresh interpreter under another PYTHONHASHSEED; the event-log
digests must be identical.   python -m selftest.determinism [--quick] [--engines a,b] [--n N]
"""
import argparse
import concurrent.futures
import json
import multiprocessing
import os
import subprocess
import sys


def _digests(engine_name, seed, indices):
    from sim import core, prng
    engine = core.get_engine(engine_name)
    out = {}
    for i in indices:
        plan = engine.gen_plan(prng.rng_for(seed, engine_name, i), 'quick')
        plan['seed'] = [seed, i]
        o = core.execute(engine, plan)
        out[i] = (o.digest(), o.harness_error)
    return out


def main(argv=None):
    from sim import bootstrap
    bootstrap.ensure_env()
    from sim import core
    ap = argparse.ArgumentParser()
    ap.add_argument('--quick', action='store_true')
    ap.add_argument('--engines')
    ap.add_argument('--n', type=int)
    ap.add_argument('--child', action='store_true')
    ap.add_argument('--seed', type=int, default=int(os.environ.get('VERIF_SEED', '0')))
    a = ap.parse_args(argv)
    engines = a.engines.split(',') if a.engines else sorted(set(core.PROPERTY_ENGINE.values()))
    engines = [e for e in engines if os.path.exists(os.path.join(os.path.dirname(__file__), '..', 'engines', e + '.py'))]
    n = a.n or (12 if a.quick else 200)
    if a.child:
        res = {e: {str(i): d for i, d in _digests(e, a.seed, list(range(n))).items()} for e in engines}
        print('DIGESTS ' + json.dumps(res))
        return 0
    bad = 0
    ctx = multiprocessing.get_context('fork')
    for e in engines:
        core.get_engine(e)
    for workers in ((4,) if a.quick else (1, 16)):
        with concurrent.futures.ProcessPoolExecutor(max_workers=workers, mp_context=ctx) as pool:
            for e in engines:
                idx = list(range(n))
                chunks = [idx[k::workers] for k in range(workers)]
                first = {}
                for r in pool.map(_digests, [e] * workers, [a.seed] * workers, chunks):
                    first.update(r)
                diffs = set()
                # repeated passes: a divergence that shows once in three executions is caught by two runs only ~half the time
                for _pass in range(1 if a.quick else 3):
                    second = {}
                    for r in pool.map(_digests, [e] * workers, [a.seed] * workers, list(reversed(chunks))):
                        second.update(r)
                    diffs |= {i for i in idx if first[i] != second[i]}
                diffs = sorted(diffs)
                herr = [i for i in idx if first[i][1]]
                print(f'determinism {e}: workers={workers} n={n} same-process-pool diffs={len(diffs)} harness_errors={len(herr)}')
                if diffs or herr:
                    bad += 1
                    print('  differing indices:', diffs[:10], 'harness:', [first[i][1] for i in herr[:2]])
                if workers == (4 if a.quick else 16):
                    env = dict(os.environ)
                    env['PYTHONHASHSEED'] = '4242'
                    env['VERIF_NO_REEXEC'] = '1'
                    p = subprocess.run([sys.executable, '-m', 'selftest.determinism', '--child', '--engines', e,
                                        '--n', str(min(n, 40)), '--seed', str(a.seed)], capture_output=True, text=True, env=env,
                                       cwd=os.path.join(os.path.dirname(__file__), '..'), timeout=1800)
                    line = [ln for ln in p.stdout.splitlines() if ln.startswith('DIGESTS ')]
                    if not line:
                        print('  fresh interpreter failed:', p.stdout[-500:], p.stderr[-1500:])
                        bad += 1
                        continue
                    fresh = json.loads(line[0][8:])[e]
                    fd = [i for i in range(min(n, 40)) if tuple(fresh[str(i)]) != tuple(first[i])]
                    print(f'determinism {e}: fresh interpreter PYTHONHASHSEED=4242 n={min(n, 40)} diffs={len(fd)}')
                    if fd:
                        bad += 1
                        print('  differing indices:', fd[:10])
    print('DETERMINISM', 'OK' if not bad else 'FAILED')
    return 1 if bad else 0


if __name__ == '__main__':
    sys.exit(main())
