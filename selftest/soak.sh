#!/bin/bash
# soak: every check under several VERIF_SEED values; prints one line per (check, seed). Usage: selftest/soak.sh "1 2 3" [tier]
cd "$(dirname "$0")/.."
export VERIF_REPLAY_DIR=${VERIF_REPLAY_DIR:-$PWD/soak_out/replays} VERIF_EVIDENCE_DIR=${VERIF_EVIDENCE_DIR:-$PWD/soak_out/evidence}
for seed in $1; do
  for c in C08 C09 C11 C12 C15 C16 C17 C20; do
    out=$(VERIF_SEED=$seed timeout 3600 /venv/bin/python -m checks.run $c --tier ${2:-quick} 2>&1)
    rc=$?
    echo "seed=$seed $c exit=$rc $(echo "$out" | grep -c '^VIOLATION') violations; $(echo "$out" | tail -1 | cut -c1-160)"
    echo "$out" | grep '^  class=\|^HARNESS' | cut -c1-400
  done
done
