"""
Sensitivity: run the registered checks against the seeded breaking changes kept under
/verif/seeded/<name>/ (patch.diff, demo.py, meta.json).  Each patch is applied to /repo with
`git apply`, the property's check is run, and the patch is undone straight afterwards.

    python -m selftest.seeded [--only NAME[,NAME]] [--tier quick] [--seeds 0,1] [--seconds S] [--demo]
"""
import argparse
import json
import os
import pathlib
import shutil
import subprocess
import sys
import tempfile
import time

VERIF = pathlib.Path(__file__).resolve().parent.parent
SEEDED = VERIF / 'seeded'


def repo_clean():
    out = subprocess.run(['git', '-C', '/repo', 'status', '--porcelain', '--untracked-files=no'], capture_output=True, text=True).stdout
    return not out.strip()


def run_check(prop, tier, seed, seconds, tmp):
    env = dict(os.environ, VERIF_SEED=str(seed), VERIF_REPLAY_DIR=str(tmp / 'replays'), VERIF_EVIDENCE_DIR=str(tmp / 'evidence'))
    cmd = [sys.executable, '-m', 'checks.run', prop, '--tier', tier]
    if seconds:
        cmd += ['--seconds', str(seconds)]
    t0 = time.monotonic()
    p = subprocess.run(cmd, cwd=str(VERIF), env=env, capture_output=True, text=True, timeout=3600)
    lines = [ln for ln in p.stdout.splitlines() if ln.startswith(('VIOLATION', 'KNOWN-FINDING', 'HARNESS-ERROR', '  class='))]
    return p.returncode, lines, time.monotonic() - t0


def main():
    global SEEDED
    ap = argparse.ArgumentParser()
    ap.add_argument('--only')
    ap.add_argument('--tier', default='quick')
    ap.add_argument('--seeds', default='0')
    ap.add_argument('--seconds', type=float)
    ap.add_argument('--demo', action='store_true', help='also run each demo.py with and without the patch')
    ap.add_argument('--dir', default=str(SEEDED), help='directory of <name>/patch.diff + meta.json (default /verif/seeded; own catalogue: selftest/patches)')
    a = ap.parse_args()
    SEEDED = pathlib.Path(a.dir).resolve()
    names = sorted(d.name for d in SEEDED.iterdir() if (d / 'patch.diff').exists())
    if a.only:
        names = [n for n in names if n in a.only.split(',')]
    if not repo_clean():
        print('refusing to run: /repo has uncommitted changes to tracked files')
        return 2
    results = {}
    tmp = pathlib.Path(tempfile.mkdtemp(prefix='emsverif-seeded-'))
    try:
        for name in names:
            meta = json.loads((SEEDED / name / 'meta.json').read_text())
            props = meta['property'] if isinstance(meta['property'], list) else [meta['property']]
            patch = SEEDED / name / 'patch.diff'
            rec = {'property': props, 'runs': []}
            ap_ = subprocess.run(['git', '-C', '/repo', 'apply', str(patch)], capture_output=True, text=True)
            if ap_.returncode != 0:
                rec['error'] = 'patch does not apply: ' + ap_.stderr[-300:]
                results[name] = rec
                print(f'{name}: PATCH DOES NOT APPLY')
                continue
            try:
                if a.demo and (SEEDED / name / 'demo.py').exists():
                    d = subprocess.run([sys.executable, str(SEEDED / name / 'demo.py')], capture_output=True, text=True, timeout=600,
                                       env=dict(os.environ, PYTHONPATH='/repo/src', EMSARRAY_SRC='/repo/src', DASK_SCHEDULER='synchronous'))
                    rec['demo_with_patch'] = d.returncode
                for prop in props:
                    for seed in [int(x) for x in a.seeds.split(',')]:
                        rc, lines, dt = run_check(prop, a.tier, seed, a.seconds, tmp)
                        rec['runs'].append({'property': prop, 'seed': seed, 'exit': rc, 'wall_s': round(dt, 1),
                                            'classes': [ln.strip()[:300] for ln in lines if ln.startswith('  class=')][:6]})
                        print(f'{name}: {prop} seed={seed} exit={rc} ({dt:.0f}s) ' + ('DETECTED' if rc == 1 else 'missed' if rc == 0 else 'HARNESS-ERROR'))
                        for ln in lines:
                            if ln.startswith('  class='):
                                print('     ', ln.strip()[:220])
            finally:
                subprocess.run(['git', '-C', '/repo', 'checkout', '--', '.'], check=True)
            if a.demo and (SEEDED / name / 'demo.py').exists():
                d = subprocess.run([sys.executable, str(SEEDED / name / 'demo.py')], capture_output=True, text=True, timeout=600,
                                   env=dict(os.environ, PYTHONPATH='/repo/src', EMSARRAY_SRC='/repo/src', DASK_SCHEDULER='synchronous'))
                rec['demo_without_patch'] = d.returncode
            rec['detected'] = any(r['exit'] == 1 for r in rec['runs'])
            results[name] = rec
    finally:
        subprocess.run(['git', '-C', '/repo', 'checkout', '--', '.'])
        shutil.rmtree(tmp, ignore_errors=True)
    out = SEEDED / 'RESULTS.json'
    prev = json.loads(out.read_text()) if out.exists() else {}
    prev.update(results)
    out.write_text(json.dumps(prev, indent=1, sort_keys=True))
    n = sum(1 for r in results.values() if r.get('detected'))
    print(f'seeded changes detected: {n}/{len(results)}')
    return 0


if __name__ == '__main__':
    sys.exit(main())
