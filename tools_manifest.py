"""Regenerates MANIFEST.json from one table (python3 tools_manifest.py)."""
import json

CLAIMED = {
    'C20': ('clisim', '3 (C20)', 'the command line as a system: emsarray.cli.main(argv) in forked lifetimes (sampled real `python -m emsarray` subprocesses), argv and files owned by the simulator: bounds / GeoJSON string / file geometries, CSV tables with hits, vertex hits and misses under each policy, each export format explicit or guessed; user faults with real files must end non-zero with a message; storage faults and crashes mid-command followed by the re-run with leftover --work_dir and half-written output; several invocations per process; exit-0 outputs compared with the library call made in another process; strict independent grammar for bounds'),
    'C08': ('clipsim', '3 (C08)', 'the clip pipeline as a multi-file durable operation: per-variable writes into a caller-owned work_dir recombined lazily; seeded plans over 1-3 process lifetimes of make/save/load mask, apply to original or second dataset, one-step clip, load, save, drop_work (also too early), reopen, clip-of-clip, retry, with the nth write failing / leaving a partial file / crashing, open_mfdataset failing, dask tasks failing and completing in seeded order; values judged cell by cell against a reference model with unique values'),
    'C09': ('clipsim', '3 (C09)', 'same executions as C08 with the validity/geometry oracle: convention re-detected before saving and after reopen in another lifetime (ack-then-crash included), polygons rebuilt from raw arrays by the generator rules, mesh connectivity mapped back through the selection, integer type and start_index on disk, select_variables on inputs and results, clip of a clip'),
    'C16': ('keysim', '3 (C16)', 'the cache key serialises attributes with marshal, whose bytes depend on reference counts and interning, i.e. on the process history of the dataset object, and the statement quantifies over processes: histories of copy / pickle / hold-references / gc / touch / load, non-geometry edits and single geometry edits over in-memory, file, reopened and time-split multi-file materialisations, plus fresh interpreters with other PYTHONHASHSEEDs reading the same files; history oracle over key events (equal within a geometry class, different across a geometry edit), with a diagnostic canonical key to attribute a moved key to its cause'),
    'C12': ('floorsim', '3 (C12)', 'ocean_floor processes depth dimensions in hash order (PYTHONHASHSEED-dependent); the simulator injects every processing order per world through the module-level hash seam and cross-checks sampled worlds in fresh interpreters with real hash seeds; worlds vary orientation, ordering, floor shape, dimension position, materialisation'),
    'C11': ('bindsim', '3 (C11)', 'histories of register / detect / access / construct+bind / bind again / copy (5 ways) / derive / mutate over a pool of valid, near-miss and marker datasets, across lifetimes whose entry-point environment (order, broken, non-class, duplicate entries) the simulator owns; a reference model is stepped op by op'),
    'C15': ('exportsim', '3 (C15)', 'geometry export as an acknowledged write: GeoJSON stream / 3-file shapefile / WKT / WKB to str, Path or caller handles, with failing open / k-th write / close, crash mid-write, ack-then-crash and retry; read back in another process by independent parsers and compared cell by cell with indexes'),
    'C17': ('savesim', '3 (C17)', 'two-phase save (write, reopen r+, rewrite units) driven through seeded plans: storage faults at write / r+ open / setncattr / sync, crash between phases, ack-then-crash, save-reopen-save cycles, process TZ; file judged by another process against ground truth'),
}
NA = {
    'C01': 'pure index arithmetic over dataset.sizes: no schedule, clock, fault, durable state or API history for a simulator to own (DESIGN 5)',
    'C02': 'pure cross-accessor agreement on one immutable dataset; cached_property layers are order-independent memoisation (DESIGN 5)',
    'C03': 'ravel/wind are pure reshapes; no state, I/O or environment-chosen order (DESIGN 5)',
    'C04': 'pure spatial query on an in-memory STRtree; tie-break by numpy.sort, not by any environment order (DESIGN 5)',
    'C05': 'pure in-memory selection; its only I/O-bearing form (CLI extract-points) is exercised inside C20 (DESIGN 5)',
    'C06': 'polygon construction is pure array arithmetic (DESIGN 5)',
    'C07': 'mask construction is pure; exhaustive enumeration of small boolean arrays would be model checking/testing, not simulation (DESIGN 5)',
    'C10': 'connectivity normalisation/derivation are pure functions of the input arrays (DESIGN 5)',
    'C13': 'normalize_depth_variables is a pure function; idempotence/purity are algebraic (DESIGN 5)',
    'C14': 'triangulation is pure geometry (DESIGN 5)',
    'C18': 'transect segments are pure geometry over an immutable dataset (and cfunits cannot be imported here) (DESIGN 5)',
    'C19': 'artist construction is a pure function of (dataset, variable); the timer-driven animation is outside the statement (DESIGN 5)',
}

checks = []
for pid, (engine, ref, what) in sorted(CLAIMED.items()):
    checks.append({
        'property_id': pid,
        'quick_cmd': f'/venv/bin/python -m checks.run {pid} --tier quick',
        'thorough_cmd': f'/venv/bin/python -m checks.run {pid} --tier thorough',
        'evidence_file': f'/verif/evidence/{pid}.json',
        'replay_cmd_template': '/venv/bin/python -m sim.replay {path}',
        'engine': engine,
        'level_claimed': {
            'category': 'exploration',
            'text': f'Seeded search over schedules, fault sequences and histories ({what}). A clean batch is evidence, not proof; sampled, not enumerated.',
            'design_ref': f'DESIGN.md section {ref}',
        },
        'level_note': 'Trusts: the oracle/reference model in /verif, xarray/netCDF4/HDF5/shapely as readers, process-crash (not power-loss) durability, faults injected at the Python call boundary. Runs emsarray from /repo working tree (editable install).',
        'technique': 'deterministic simulation with fault injection: seeded plan executor over forked process lifetimes, injected storage/environment faults, reference-model oracle, ddmin-minimised replay files',
    })

manifest = {
    'version': 1,
    'setup_cmd': '/venv/bin/python -m selftest.setup',
    'hooks': {
        'guard': 'EMSARRAY_VERIF',
        'enable': 'no hooks in /repo are needed: seams are installed by attribute injection inside forked lifetimes (DESIGN 2.3); checks import emsarray from /repo/src through the editable install in /venv',
        'baseline_off_cmd': 'cd /repo && /venv/bin/python -m pytest -ra -q -p no:cacheprovider --timeout=900 --continue-on-collection-errors',
        'source_commits': [],
        'add_only': True,
    },
    'engines': [
        {'name': e, 'path': f'/verif/engines/{e}.py', 'serves_properties': sorted(p for p, (en, _, _) in CLAIMED.items() if en == e),
         'kind_free_text': 'seeded plan generator + executor over forked lifetimes + oracle'}
        for e in sorted({en for en, _, _ in CLAIMED.values()})
    ],
    'checks': checks,
    'not_applicable': [{'property_id': k, 'reason': v} for k, v in sorted(NA.items())],
    'notes': 'All checks honour VERIF_SEED and VERIF_TIER. exit 0 = held; exit 1 + VIOLATION line = violation; exit 2 = harness error (never a pass). Genuine defects fixed in /repo are listed in known_findings.json as fixed entries.',
}
json.dump(manifest, open('/verif/MANIFEST.json', 'w'), indent=1)
print('wrote MANIFEST.json with', len(checks), 'checks')
